import importlib.util, importlib.machinery, os, sys, shutil
VERIF = os.path.dirname(os.path.dirname(os.path.abspath(__file__)))
loader = importlib.machinery.SourceFileLoader("vfcheck", os.path.join(VERIF, "bin", "check"))
spec = importlib.util.spec_from_loader("vfcheck", loader)
chk = importlib.util.module_from_spec(spec)
loader.exec_module(chk)
work = chk.make_workdir("setup")
ok = True
try:
    for pkg, race in (("stanza", False), ("xmpp", False), ("xmpp", True)):
        b, out, sec = chk.build(work, pkg, race)
        print("setup: build %s race=%s -> %s (%.1fs)" % (pkg, race, "ok" if b else "FAILED", sec), flush=True)
        if not b:
            print(out[-4000:])
            ok = False
finally:
    shutil.rmtree(work, ignore_errors=True)
sys.exit(0 if ok else 1)

# Per-property driver table: which test binary, race detector or not, budgets (quick, thorough) in seconds,
# evidence level, minimum number of evaluations below which a run is BROKEN (observed too little),
# and the MANIFEST texts.  bin/genmanifest turns this into MANIFEST.json.

HOOK_COMMITS = []   # no hook code lives in /repo: the harness is injected at build time (overlay)

NOT_APPLICABLE = {}

TB = "Trusted base: Go 1.23.5 runtime/encoding/xml, the harness oracle for this property (small reference model), the overlay build. Says nothing about inputs/schedules not produced."

# races on the unacknowledged-stanza queue / send path are attributed to C08 and C10 (DESIGN 3.4)
QUEUE_RACE = r"UnAckQueue|SendMissingStz|\(\*Client\)\.Send"

PROPS = {
    "C17": dict(pkg="stanza", test="TestVf_C17", race=False, level="exploration", timeout=(120, 900), floor=1000,
                technique="runtime monitor: lock-step reference FIFO over generated operation histories",
                text="Random operation histories (quick 20k, thorough 2M sequences of up to 200 ops incl. negative/zero/overlong n, empty-and-refill) run on the real UnAckQueue with a slice FIFO stepped in lock-step; returned elements, contents after every step, non-modification by peeks and strict id increase are compared. Exploration is the right level: the state space is unbounded but the model is tiny, so volume of distinct histories is what finds an off-by-one.",
                note=TB,
                assumptions=["Go runtime", "reference FIFO (slice) in the harness"]),
}
PROPS["C15"] = dict(pkg="stanza", test="TestVf_C15", race=False, level="exploration", timeout=(120, 900), floor=1000,
    technique="runtime monitor: reference JID splitter + Full()/Bare() re-parse round trip over generated strings",
    text="Quick 50k / thorough 5M strings assembled from (local, domain, resource) triples over accepted, whitespace, forbidden and unlisted character classes plus arbitrary strings; a 40-line reference splitter (the statement as code) decides the expected parts and must-accept/must-reject; every accepted JID is rendered with Full() and Bare() and parsed again. Strings with '/' before the first '@' are only checked for totality, characters the statement does not classify carry no accept/reject assertion.",
    note=TB, assumptions=["reference splitter in harness/stanza/c15_test.go", "unicode.IsSpace as the definition of whitespace"])
PROPS["C19"] = dict(pkg="xmpp", test="TestVf_C19", race=False, level="exploration", timeout=(120, 900), floor=1000,
    technique="runtime monitor: math/big reference for min(cap, base*factor^n) on generated settings",
    text="Quick 20k / thorough 2M settings (base, factor in [1,1e6], cap in [1,MaxInt64/1e6] ms, library defaults, jitter on/off) x attempt numbers 0..70, 1e3, 1e6, MaxInt32, through the per-attempt query (also in shuffled order: it is documented stateless) and through duration() sequences separated by reset(); equality with an exact big-integer reference without jitter, range [0, reference] with jitter, never negative, never above cap, non-decreasing. Caps above MaxInt64/1e6 ms cannot be represented in the returned time.Duration and are outside the bounds.",
    note=TB, assumptions=["math/big reference", "jittered values only range-checked (library uses the global math/rand)"])
PROPS["C20"] = dict(pkg="xmpp", test="TestVf_C20", race=False, level="exploration", timeout=(120, 900), floor=1000,
    technique="runtime monitor: net.SplitHostPort oracle on the address held by the constructed transport",
    text="Quick 20k / thorough 1M generated addresses (DNS names with digit/hyphen/punycode labels and trailing dot, IPv4, IPv6 in full/compressed/::/v4-mapped/zoned/upper-case shapes, bracketed or bare, port absent or any of 1..65535; thorough sweeps every port) are passed to ensurePort, NewClientTransport, NewComponentTransport and NewClient; the address the transport would dial must split with net.SplitHostPort into exactly the given host and the given port or 5222. ws:/wss: URLs must give a WebsocketTransport for clients and ErrTransportProtocolNotSupported (also from Component.Connect) for components.",
    note=TB, assumptions=["net.SplitHostPort as the definition of a dialable host:port"])
PROPS["C06"] = dict(pkg="xmpp", test="TestVf_C06", race=False, level="exploration", timeout=(120, 900), floor=1000,
    technique="runtime monitor: reference first-match route interpreter + wire-level check of the automatic IQ error",
    text="Quick 20k / thorough 2M (route table, packet) pairs: tables of 0-8 routes, each a conjunction of 0-3 Packet / StanzaType / IQNamespaces matchers with letter-case variants and a catch-all at any position; packets are parsed from XML by the library as the receive loop does. A 40-line three-valued reference interpreter (true / false / documentation silent) names the route that must run; handler invocations per route and everything passed to the Sender are recorded. For an unmatched IQ get/set the single reply is marshalled and re-parsed: type error, same id, from/to swapped, feature-not-implemented.",
    note=TB + " Cases the documentation does not decide (namespaces differing only in case, unregistered payload under a namespace matcher) are counted and not asserted.",
    assumptions=["reference interpreter in harness/xmpp/c06_test.go"])
PROPS["C01"] = dict(pkg="stanza", test="TestVf_C01", race=False, level="exploration", timeout=(300, 1800), floor=1000,
    technique="runtime monitor: reflective value generator + parse-back equality, byte fix-point and metamorphic skeleton oracle",
    text="Values of Message, Presence, IQ, the seven stream-management elements, SASLAuth and Handshake are built by a reflective generator (interfaces filled from the live registry and closed alternative tables, generic Node trees with explicit namespaces, two harness extension types incl. one registered through the * alias): one single-path probe per field path to struct depth 6 (about 680 paths), every registered message/presence extension alone and in every ordered pair, and quick 5k / thorough 200k random combinations with hostile text. Each value is marshalled, parsed back with xml.Unmarshal and with NextPacket inside a stream, compared with a normalising comparator that collects every differing field, re-marshalled for the byte fix-point, and its raw token skeleton is compared with the skeleton of the same structure carrying placeholders instead of text (metamorphic injection oracle). Exploration: the input space is unbounded; the path probes make field coverage systematic.",
    note=TB, assumptions=["encoding/xml", "role table for name/raw-XML fields in harness/stanza/reflectkit_test.go"])
PROPS["C02"] = dict(pkg="stanza", test="TestVf_C02", race=False, level="exploration", timeout=(300, 2400), floor=1000,
    technique="runtime monitor: generator-known packet list + segmentation metamorphism + totality watchdog with input journal",
    text="Grammar-generated streams (quick 2k, thorough 60k; client, component and WebSocket-framing headers; 1-12 top-level elements over every kind NextPacket knows; random addressing incl. foreign-namespace attributes named to/from/id/type; known children, registered extensions, unknown-namespace children nested up to depth 200/5000 whose descendants are named message/presence/iq/body/error... in jabber:client and other namespaces; CDATA, comments, PIs, character references) are read with successive NextPacket calls under six segmentations (whole, byte-wise, random chunks, each bare and behind the 32 KiB bufio reader the transports use). The i-th result must have the Go type and type/id/from/to/lang of the i-th element, results must not depend on the segmentation, unknown elements must give an error. Totality: every truncation of sampled streams plus quick 20k / thorough 2M mutated or random byte strings; panic, (nil,nil) or a call still running after 10 s is a violation.",
    note=TB + " Only kind and addressing are asserted, nothing about what follows an error. Nesting is bounded below encoding/xml's own 10000-level limit.",
    assumptions=["encoding/xml tokenizer", "generator's expected list"])
PROPS["C05"] = dict(pkg="xmpp", test="TestVf_C05", race=True, race_verdict=True, race_ignore=QUEUE_RACE, level="exploration", timeout=(300, 2400), floor=20,
    technique="runtime monitor: exactly-once multiset/order oracle over recorded handler invocations + Go race detector",
    text="After a scripted negotiation the peer sends random sequences (quick 160 x <=60, thorough 1200 x <=300 elements) over {message incl. 30 KiB bodies and unknown extensions that wrap nested stanzas, presence, iq of every type with known/unknown payloads, <r/>, <a h/> also when stream management was never enabled}, randomly segmented, to a Client over TCP (ending with a sentinel, a FIN or an RST right after the last complete element), a Component over TCP and a Client over WebSocket (one stanza per message, several per message, one stanza fragmented over frames). A catch-all route records ids while handlers sleep/yield; a gate case makes the first handler wait for the second to start. Oracle: multiset of routed ids == stanzas sent (subset without duplicates after RST), component order == arrival order, number of <a/> >= number of <r/>, process alive; loss is decided when nothing is in flight any more (goroutine-state predicate), not by a timeout. Runs under -race; reports on the receive/route path are violations (queue/send-path reports belong to C08/C10).",
    note=TB, assumptions=["scripted peer and catch-all route recorder in the harness", "loopback TCP / nhooyr websocket server side"])
PROPS["C09"] = dict(pkg="xmpp", test="TestVf_C09", race=True, race_verdict=False, level="exploration", timeout=(300, 2400), floor=50,
    technique="runtime monitor: XEP-0198 inbound counter model against the h attributes seen by the scripted peer",
    text="Stream-managed sessions against a scripted peer that sends random inbound histories (quick 300 x <=40, thorough 6000 x <=200 elements over message, presence, iq, unknown-extension stanzas, <r/> and <a h/>) with <r/> at random positions and a final <r/> that proves consumption; a third of the histories continue over 1-4 further connections: the peer closes (FIN), the harness reconnects with Client.Resume() as a StreamManager would, and the peer reads <resume h previd>. The receive loop is sequential, so the oracle is pure counting: h of the j-th <a/> must equal the number of stanzas sent before the j-th <r/> on the session, and h of <resume/> the total so far.",
    note=TB + " Race reports are recorded, not verdict-bearing for this property.",
    assumptions=["scripted peer", "FIN cuts only (everything sent is received before EOF)"])

# Per-property driver table: which test binary, race detector or not, budgets (quick, thorough) in seconds,
# evidence level, minimum number of evaluations below which a run is BROKEN (observed too little),
# and the MANIFEST texts.  bin/genmanifest turns this into MANIFEST.json.

HOOK_COMMITS = []   # no hook code lives in /repo: the harness is injected at build time (overlay)

NOT_APPLICABLE = {}

TB = "Trusted base: Go 1.23.5 runtime/encoding/xml, the harness oracle for this property (small reference model), the overlay build. Says nothing about inputs/schedules not produced."

PROPS = {
    "C17": dict(pkg="stanza", test="TestVf_C17", race=False, level="exploration", timeout=(120, 900), floor=1000,
                technique="runtime monitor: lock-step reference FIFO over generated operation histories",
                text="Random operation histories (quick 20k, thorough 2M sequences of up to 200 ops incl. negative/zero/overlong n, empty-and-refill) run on the real UnAckQueue with a slice FIFO stepped in lock-step; returned elements, contents after every step, non-modification by peeks and strict id increase are compared. Exploration is the right level: the state space is unbounded but the model is tiny, so volume of distinct histories is what finds an off-by-one.",
                note=TB,
                assumptions=["Go runtime", "reference FIFO (slice) in the harness"]),
}

module vfkit

go 1.13

package vfkit

import (
	"math/rand"
	"strings"
	"unicode/utf8"
)

// Hostile text: strings over XML-1.0-legal characters (DESIGN 3.5).
var hostileAtoms = []string{
	"<", ">", "&", "\"", "'", "]]>", "<![CDATA[", "<!--", "-->", "<?", "?>", "&amp;", "&lt;", "&#60;", "&#x3c;",
	"</message>", "</iq>", "<body>", "</body>", "<x xmlns='y'/>", "=", "/", " ", "  ", "\t", "\n", "\r", "\r\n",
	"a", "b", "Z", "0", "é", "ß", "中", "日本", " ", " ", "�", "\U0001F600", "\U00010000", "퟿", "",
	"xmlns", "xml:lang", "jabber:client", ":", "%", "\\", "{", "}", "@", "#",
	// characters that string "preparation" steps map to a space or to nothing, and Unicode line separators
	"\u00a0", "\u200b", "\ufeff", "\u00ad", "\u3000", "\u2003", "\u2060", "\u2028", "\u0085", "\u200d",
}

// Text returns a hostile string of up to maxRunes runes (possibly empty when allowEmpty).
func Text(r *rand.Rand, maxRunes int, allowEmpty bool) string {
	if allowEmpty && r.Intn(12) == 0 {
		return ""
	}
	switch r.Intn(10) {
	case 0:
		// whitespace only / leading / trailing whitespace
		ws := []string{" ", "\t", "\n", "\r", "  "}
		s := ws[r.Intn(len(ws))]
		if r.Intn(2) == 0 {
			return clip(s+Text(r, maxRunes-2, false)+ws[r.Intn(len(ws))], maxRunes)
		}
		return s
	case 1:
		return Plain(r, 1+r.Intn(8))
	}
	n := 1 + r.Intn(6)
	var sb strings.Builder
	for i := 0; i < n; i++ {
		if r.Intn(3) == 0 {
			sb.WriteString(Plain(r, 1+r.Intn(4)))
		} else {
			sb.WriteString(hostileAtoms[r.Intn(len(hostileAtoms))])
		}
	}
	s := clip(sb.String(), maxRunes)
	if s == "" && !allowEmpty {
		return "x"
	}
	return s
}

// TextNoEdgeSpace is Text without leading/trailing XML whitespace and never whitespace-only
// (for fields whose parser legitimately trims, none so far; kept for completeness).
func TextNoEdgeSpace(r *rand.Rand, maxRunes int) string {
	s := strings.Trim(Text(r, maxRunes, false), " \t\r\n")
	if s == "" {
		return "x"
	}
	return s
}

func clip(s string, maxRunes int) string {
	if maxRunes <= 0 {
		return ""
	}
	if utf8.RuneCountInString(s) <= maxRunes {
		return s
	}
	rs := []rune(s)
	return string(rs[:maxRunes])
}

const plainAlphabet = "abcdefghijklmnopqrstuvwxyzABCDEFGHIJKLMNOPQRSTUVWXYZ0123456789"

func Plain(r *rand.Rand, n int) string {
	b := make([]byte, n)
	for i := range b {
		b[i] = plainAlphabet[r.Intn(len(plainAlphabet))]
	}
	return string(b)
}

// NCName returns a random XML NCName (usable as element / attribute local name).
func NCName(r *rand.Rand) string {
	const first = "abcdefghijklmnopqrstuvwxyzABCDEFGHIJKLMNOPQRSTUVWXYZ_"
	const rest = first + "0123456789-."
	n := 1 + r.Intn(8)
	b := make([]byte, n)
	b[0] = first[r.Intn(len(first))]
	for i := 1; i < n; i++ {
		b[i] = rest[r.Intn(len(rest))]
	}
	s := string(b)
	if strings.HasPrefix(strings.ToLower(s), "xml") {
		s = "n" + s
	}
	return s
}

// XMLLegal reports whether every rune of s is an XML 1.0 Char.
func XMLLegal(s string) bool {
	for _, c := range s {
		if !(c == 0x9 || c == 0xA || c == 0xD || (c >= 0x20 && c <= 0xD7FF) || (c >= 0xE000 && c <= 0xFFFD) || (c >= 0x10000 && c <= 0x10FFFF)) {
			return false
		}
	}
	return utf8.ValidString(s)
}

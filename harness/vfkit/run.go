// Package vfkit is the small runtime shared by all in-package harness files:
// case journal, verdict collection (violated / held / inconclusive), evidence counters,
// seeded PRNG and the hostile-text generator.  It has no dependency on go-xmpp.
package vfkit

import (
	"crypto/sha1"
	"encoding/hex"
	"encoding/json"
	"fmt"
	"math/rand"
	"os"
	"sort"
	"strconv"
	"strings"
	"sync"
	"time"
)

// Violation is one oracle failure. Key identifies the failing input class / history shape
// (it is what known_findings.jsonl lists); What is human readable; Witness is the case.
type Violation struct {
	Key     string      `json:"key"`
	What    string      `json:"what"`
	Witness interface{} `json:"witness,omitempty"`
	Case    int         `json:"case"`
}

type Result struct {
	Property     string                 `json:"property"`
	Tier         string                 `json:"tier"`
	Seed         int64                  `json:"seed"`
	Evaluations  int                    `json:"evaluations"`
	Distinct     int                    `json:"distinct_nontrivial"`
	Rule         string                 `json:"rule"`
	Samples      []interface{}          `json:"samples"`
	Counters     map[string]int64       `json:"counters"`
	Extra        map[string]interface{} `json:"extra"`
	Violations   []Violation            `json:"violations"`
	ViolationsN  map[string]int         `json:"violation_counts"`
	Inconclusive map[string]int         `json:"inconclusive"`
	Exhaustive   bool                   `json:"exhaustive"`
	Complete     bool                   `json:"complete"`
	WallS        float64                `json:"wall_s"`
}

// Run collects everything one TestVf_Cnn function observes.
type Run struct {
	mu        sync.Mutex
	res       Result
	distinct  map[string]struct{}
	journal   *os.File
	start     time.Time
	Replay    string // path of a replay file, "" when not replaying
	out       string
	maxPerKey int
}

func Tier() string {
	t := os.Getenv("VERIF_TIER")
	if t == "" {
		t = "quick"
	}
	return t
}

func Thorough() bool { return Tier() == "thorough" }

func Seed() int64 {
	s, err := strconv.ParseInt(os.Getenv("VERIF_SEED"), 10, 64)
	if err != nil {
		return 1
	}
	return s
}

// Pick returns q for the quick tier and t for thorough.
func Pick(q, t int) int {
	if Thorough() {
		return t
	}
	return q
}

func Open(prop string, rule string) *Run {
	r := &Run{distinct: map[string]struct{}{}, start: time.Now(), maxPerKey: 3}
	r.res.Property = prop
	r.res.Tier = Tier()
	r.res.Seed = Seed()
	r.res.Rule = rule
	r.res.Counters = map[string]int64{}
	r.res.Extra = map[string]interface{}{}
	r.res.ViolationsN = map[string]int{}
	r.res.Inconclusive = map[string]int{}
	r.out = os.Getenv("VF_OUT")
	r.Replay = os.Getenv("VF_REPLAY")
	if j := os.Getenv("VF_JOURNAL"); j != "" {
		f, err := os.OpenFile(j, os.O_CREATE|os.O_WRONLY|os.O_TRUNC, 0644)
		if err == nil {
			r.journal = f
		}
	}
	return r
}

// Rand returns a PRNG that is a pure function of (VERIF_SEED, stream): every worker /
// generator gets its own stream so case lists do not depend on scheduling.
func Rand(stream int64) *rand.Rand {
	return rand.New(rand.NewSource(Seed()*1000003 + stream*7919 + 17))
}

// Case journals the case (before it is executed) and counts it.  Returns the case index.
func (r *Run) Case(desc interface{}) int {
	r.mu.Lock()
	defer r.mu.Unlock()
	r.res.Evaluations++
	n := r.res.Evaluations
	if r.journal != nil {
		b, err := json.Marshal(map[string]interface{}{"case": n, "desc": desc})
		if err != nil {
			b = []byte(fmt.Sprintf(`{"case":%d,"desc":%q}`, n, fmt.Sprintf("%#v", desc)))
		}
		r.journal.Write(append(b, '\n'))
	}
	return n
}

// CaseQuiet counts a case without journaling (for very cheap pure cases, journaled in batches).
func (r *Run) CaseQuiet() int {
	r.mu.Lock()
	r.res.Evaluations++
	n := r.res.Evaluations
	r.mu.Unlock()
	return n
}

// Note writes a free-form journal line (e.g. "batch 12 seed …").
func (r *Run) Note(desc interface{}) {
	r.mu.Lock()
	defer r.mu.Unlock()
	if r.journal != nil {
		b, _ := json.Marshal(map[string]interface{}{"note": desc})
		r.journal.Write(append(b, '\n'))
	}
}

// Nontrivial records a distinct non-trivial case by its hash key.
func (r *Run) Nontrivial(key string) {
	h := sha1.Sum([]byte(key))
	k := hex.EncodeToString(h[:8])
	r.mu.Lock()
	r.distinct[k] = struct{}{}
	r.mu.Unlock()
}

func (r *Run) Violation(key, what string, witness interface{}) {
	r.mu.Lock()
	defer r.mu.Unlock()
	r.res.ViolationsN[key]++
	if r.res.ViolationsN[key] <= r.maxPerKey && len(r.res.Violations) < 400 {
		r.res.Violations = append(r.res.Violations, Violation{Key: key, What: what, Witness: witness, Case: r.res.Evaluations})
	}
}

func (r *Run) NViolations() int {
	r.mu.Lock()
	defer r.mu.Unlock()
	n := 0
	for _, c := range r.res.ViolationsN {
		n += c
	}
	return n
}

// Enough reports that plenty of witnesses have been collected: every further failing case usually costs a
// watchdog, so generators stop producing cases (the run then ends with the violations it has).
// Keys listed as open known findings (handed over by the driver in VF_KNOWN_KEYS, a trailing * is a wildcard) are
// not witnesses of anything new and do not count: a known finding must never shorten the exploration.
func (r *Run) Enough() bool {
	r.mu.Lock()
	defer r.mu.Unlock()
	n := 0
	for k, c := range r.res.ViolationsN {
		if !knownKey(k) {
			n += c
		}
	}
	return n >= 12
}

var knownKeys = strings.Split(os.Getenv("VF_KNOWN_KEYS"), "\n")

func knownKey(k string) bool {
	for _, p := range knownKeys {
		if p == "" {
			continue
		}
		if p == k || (strings.HasSuffix(p, "*") && strings.HasPrefix(k, strings.TrimSuffix(p, "*"))) {
			return true
		}
	}
	return false
}

func (r *Run) Inconclusive(reason string) {
	r.mu.Lock()
	r.res.Inconclusive[reason]++
	r.mu.Unlock()
}

func (r *Run) Sample(x interface{}) {
	r.mu.Lock()
	if len(r.res.Samples) < 5 {
		r.res.Samples = append(r.res.Samples, x)
	}
	r.mu.Unlock()
}

func (r *Run) Count(name string, n int64) {
	r.mu.Lock()
	r.res.Counters[name] += n
	r.mu.Unlock()
}

func (r *Run) Counter(name string) int64 {
	r.mu.Lock()
	defer r.mu.Unlock()
	return r.res.Counters[name]
}

func (r *Run) Extra(name string, v interface{}) {
	r.mu.Lock()
	r.res.Extra[name] = v
	r.mu.Unlock()
}

func (r *Run) Exhaustive(b bool) { r.mu.Lock(); r.res.Exhaustive = b; r.mu.Unlock() }

// Close writes the result file.  A run that never reaches Close is treated by the driver as a crash.
func (r *Run) Close() {
	r.mu.Lock()
	defer r.mu.Unlock()
	r.res.Distinct = len(r.distinct)
	r.res.Complete = true
	r.res.WallS = time.Since(r.start).Seconds()
	sort.Slice(r.res.Violations, func(i, j int) bool { return r.res.Violations[i].Key < r.res.Violations[j].Key })
	if r.out != "" {
		b, err := json.MarshalIndent(&r.res, "", " ")
		if err != nil {
			b = []byte(fmt.Sprintf(`{"property":%q,"complete":false,"marshal_error":%q}`, r.res.Property, err.Error()))
		}
		tmp := r.out + ".tmp"
		if err := os.WriteFile(tmp, b, 0644); err == nil {
			os.Rename(tmp, r.out)
		}
	}
	if r.journal != nil {
		r.journal.Close()
	}
}

// ReplayCase loads the "desc" of a replay file into v. Returns false when not replaying.
func (r *Run) ReplayCase(v interface{}) bool {
	if r.Replay == "" {
		return false
	}
	b, err := os.ReadFile(r.Replay)
	if err != nil {
		return false
	}
	var w struct {
		Witness json.RawMessage `json:"witness"`
	}
	if json.Unmarshal(b, &w) != nil || len(w.Witness) == 0 {
		return false
	}
	return json.Unmarshal(w.Witness, v) == nil
}

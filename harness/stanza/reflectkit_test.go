package stanza

// Reflective value generator, path enumerator and normalising comparator used by C01.

import (
	"encoding/base64"
	"encoding/hex"
	"encoding/xml"
	"fmt"
	"math/rand"
	"reflect"
	"sort"
	"strings"
	"sync"
	"sync/atomic"
	"time"

	"vfkit"
)

var (
	vfTypXMLName  = reflect.TypeOf(xml.Name{})
	vfTypTime     = reflect.TypeOf(time.Time{})
	vfTypNullable = reflect.TypeOf(NullableInt{})
	vfTypNode     = reflect.TypeOf(Node{})
	vfTypAttrs    = reflect.TypeOf([]xml.Attr{})
	vfTypErr      = reflect.TypeOf(Err{})

	vfIfIQPayload    = reflect.TypeOf((*IQPayload)(nil)).Elem()
	vfIfMsgExt       = reflect.TypeOf((*MsgExtension)(nil)).Elem()
	vfIfPresExt      = reflect.TypeOf((*PresExtension)(nil)).Elem()
	vfIfCommandElt   = reflect.TypeOf((*CommandElement)(nil)).Elem()
	vfIfEventElt     = reflect.TypeOf((*EventElement)(nil)).Elem()
	vfIfAssoc        = reflect.TypeOf((*AssocDisassoc)(nil)).Elem()
	vfIfErrGroup     = reflect.TypeOf((*StanzaErrorGroup)(nil)).Elem()
	vfIfOwnerUseCase = reflect.TypeOf((*OwnerUseCase)(nil)).Elem()
	vfIfPacket       = reflect.TypeOf((*Packet)(nil)).Elem()
)

// two harness extension types, registered in a private namespace: one by exact name, one through the "*" alias
type vfExtExact struct {
	XMLName xml.Name `xml:"urn:vf:ext exact"`
	A       string   `xml:"a,attr,omitempty"`
	T       string   `xml:",chardata"`
}
type vfExtStar struct {
	XMLName xml.Name
	A       string `xml:"a,attr,omitempty"`
	T       string `xml:"t,omitempty"`
}

func init() {
	TypeRegistry.MapExtension(PKTMessage, xml.Name{Space: "urn:vf:ext", Local: "exact"}, vfExtExact{})
	TypeRegistry.MapExtension(PKTPresence, xml.Name{Space: "urn:vf:ext", Local: "exact"}, vfExtExact{})
	TypeRegistry.MapExtension(PKTMessage, xml.Name{Space: "urn:vf:star", Local: "*"}, vfExtStar{})
	TypeRegistry.MapExtension(PKTPresence, xml.Name{Space: "urn:vf:star", Local: "*"}, vfExtStar{})
}

func vfRegistryTypes(pt PacketType) []reflect.Type {
	seen := map[reflect.Type]bool{}
	var out []reflect.Type
	TypeRegistry.msgTypesLock.RLock()
	for k, store := range TypeRegistry.msgTypes {
		if k.packetType != pt {
			continue
		}
		for _, t := range store {
			if !seen[t] {
				seen[t] = true
				out = append(out, reflect.PtrTo(t))
			}
		}
	}
	TypeRegistry.msgTypesLock.RUnlock()
	sort.Slice(out, func(i, j int) bool { return out[i].String() < out[j].String() })
	return out
}

var vfStreamErrTypes = []reflect.Type{
	reflect.TypeOf(&BadFormat{}), reflect.TypeOf(&Conflict{}), reflect.TypeOf(&HostUnknown{}), reflect.TypeOf(&InvalidForm{}),
	reflect.TypeOf(&NotAuthorized{}), reflect.TypeOf(&PolicyViolation{}), reflect.TypeOf(&SystemShutdown{}), reflect.TypeOf(&UnexpectedRequest{}),
	reflect.TypeOf(&XMLNotWellFormed{}), reflect.TypeOf(&UndefinedCondition{}),
}

// vfAlternatives lists the dynamic types that can sit behind an interface-typed field.
func vfAlternatives(it reflect.Type, owner, field string) []reflect.Type {
	switch it {
	case vfIfIQPayload:
		alts := vfRegistryTypes(PKTIQ)
		alts = append(alts, reflect.TypeOf(&Roster{})) // registered, but under the same key as RosterItems
		return alts
	case vfIfCommandElt:
		return []reflect.Type{reflect.TypeOf(&Actions{}), reflect.TypeOf(&Note{}), reflect.TypeOf(&Form{}), reflect.TypeOf(&Node{})}
	case vfIfEventElt:
		return []reflect.Type{reflect.TypeOf(&CollectionEvent{}), reflect.TypeOf(&ConfigurationEvent{}), reflect.TypeOf(&DeleteEvent{}),
			reflect.TypeOf(&ItemsEvent{}), reflect.TypeOf(&PurgeEvent{}), reflect.TypeOf(&SubscriptionEvent{})}
	case vfIfAssoc:
		return []reflect.Type{reflect.TypeOf(&AssociateEvent{}), reflect.TypeOf(&DisassociateEvent{})}
	case vfIfErrGroup:
		return vfStreamErrTypes
	case vfIfOwnerUseCase:
		return []reflect.Type{reflect.TypeOf(&AffiliationsOwner{}), reflect.TypeOf(&ConfigureOwner{}), reflect.TypeOf(&DefaultOwner{}),
			reflect.TypeOf(&DeleteOwner{}), reflect.TypeOf(&PurgeOwner{}), reflect.TypeOf(&SubscriptionsOwner{})}
	case vfIfPacket:
		return []reflect.Type{reflect.TypeOf(Message{}), reflect.TypeOf(Presence{}), reflect.TypeOf(&IQ{})}
	case vfIfMsgExt:
		if owner == "Message" && field == "Extensions" {
			return vfRegistryTypes(PKTMessage)
		}
	case vfIfPresExt:
		if owner == "Presence" && field == "Extensions" {
			return vfRegistryTypes(PKTPresence)
		}
	}
	return nil
}

func vfAltName(t reflect.Type) string {
	s := t.String()
	s = strings.Replace(s, "stanza.", "", 1)
	return s
}

// field roles
const (
	vfRoleText = iota
	vfRoleName
	vfRoleBase64
	vfRoleHex
	vfRoleXHTML
	vfRoleSkip
)

func vfRole(owner, field string) int {
	switch owner + "." + field {
	case "Err.Reason":
		return vfRoleName
	case "SASLAuth.Value":
		return vfRoleBase64
	case "Handshake.Value":
		return vfRoleHex
	case "HTMLBody.InnerXML":
		return vfRoleXHTML
	}
	return vfRoleText
}

type vfGen struct {
	r           *rand.Rand // structure decisions
	tr          *rand.Rand // text content (separate stream so that placeholder mode keeps the structure)
	placeholder bool
	orig        []string
	maxRunes    int
}

func newVfGen(seed int64, placeholder bool) *vfGen {
	return &vfGen{r: rand.New(rand.NewSource(seed)), tr: rand.New(rand.NewSource(seed ^ 0x5eed)), placeholder: placeholder, maxRunes: 24}
}

func (g *vfGen) text(allowEmpty bool) string {
	s := vfkit.Text(g.tr, g.maxRunes, allowEmpty)
	if g.placeholder {
		if s == "" {
			return ""
		}
		g.orig = append(g.orig, s)
		return fmt.Sprintf("T%dT", len(g.orig)-1)
	}
	if !g.placeholder {
		if s != "" {
			g.orig = append(g.orig, s)
		}
	}
	return s
}

func (g *vfGen) xhtml() string {
	var sb strings.Builder
	n := g.r.Intn(3)
	for i := 0; i < n; i++ {
		switch g.r.Intn(3) {
		case 0:
			sb.WriteString(`<p xmlns="http://www.w3.org/1999/xhtml">` + vfkit.Plain(g.r, 3) + `</p>`)
		case 1:
			sb.WriteString(`<span xmlns="http://www.w3.org/1999/xhtml" style="color:red">` + vfkit.Plain(g.r, 2) + `&amp;<br></br></span>`)
		case 2:
			sb.WriteString(vfkit.Plain(g.r, 4))
		}
	}
	return sb.String()
}

// vfForeignKindNames: element names under which an extension is registered for messages or presences but nothing
// is registered for IQs. A generic Node so named inside an IQ is just a generic node - but a registry that
// forgets the stanza kind in a lookup (a cache keyed by name only, say) is seen afterwards by the messages and
// presences that carry the real extension.
var vfForeignKindUsed int64
var vfForeignKindOnce sync.Once
var vfForeignKindList []xml.Name

func vfForeignKindNames() []xml.Name {
	vfForeignKindOnce.Do(func() { vfForeignKindList = vfForeignKindScan() })
	return vfForeignKindList
}

func vfForeignKindScan() []xml.Name {
	var out []xml.Name
	TypeRegistry.msgTypesLock.RLock()
	defer TypeRegistry.msgTypesLock.RUnlock()
	for k, store := range TypeRegistry.msgTypes {
		if k.packetType == PKTIQ {
			continue
		}
		for local := range store {
			if local == "*" {
				continue
			}
			if iqs, ok := TypeRegistry.msgTypes[registryKey{PKTIQ, k.namespace}]; ok {
				if _, clash := iqs[local]; clash {
					continue
				}
				if _, clash := iqs["*"]; clash {
					continue
				}
			}
			out = append(out, xml.Name{Space: k.namespace, Local: local})
		}
	}
	sort.Slice(out, func(i, j int) bool { return out[i].Space+out[i].Local < out[j].Space+out[j].Local })
	return out
}

func (g *vfGen) node(depth int) Node {
	n := Node{XMLName: xml.Name{Space: "urn:vf:n" + vfkit.Plain(g.r, 1+g.r.Intn(3)), Local: vfkit.NCName(g.r)}}
	if g.r.Intn(4) == 0 {
		n.XMLName.Space = "urn:vf:shared"
	}
	if fk := vfForeignKindNames(); depth == 1 && len(fk) > 0 && g.r.Intn(8) == 0 {
		n.XMLName = fk[g.r.Intn(len(fk))]
		atomic.AddInt64(&vfForeignKindUsed, 1)
	}
	na := g.r.Intn(3)
	used := map[string]bool{}
	for i := 0; i < na; i++ {
		name := vfkit.NCName(g.r)
		if used[name] || name == "xmlns" {
			continue
		}
		used[name] = true
		n.Attrs = append(n.Attrs, xml.Attr{Name: xml.Name{Local: name}, Value: g.text(true)})
	}
	if g.r.Intn(5) == 0 {
		// the one namespace-qualified attribute that needs no declaration (and that unknown payloads do carry)
		n.Attrs = append(n.Attrs, xml.Attr{Name: xml.Name{Space: "http://www.w3.org/XML/1998/namespace", Local: "lang"}, Value: []string{"en", "fr-CA", "x-vf"}[g.r.Intn(3)]})
	}
	if depth < 4 {
		k := g.r.Intn(4)
		if depth > 1 && g.r.Intn(2) == 0 {
			k = 0
		}
		for i := 0; i < k; i++ {
			n.Nodes = append(n.Nodes, g.node(depth+1))
		}
	}
	if g.r.Intn(2) == 0 {
		n.Content = g.text(true)
	}
	return n
}

func (g *vfGen) scalar(t reflect.Type, owner, field string, minimal bool) reflect.Value {
	v := reflect.New(t).Elem()
	switch t.Kind() {
	case reflect.String:
		switch vfRole(owner, field) {
		case vfRoleName:
			v.SetString(vfkit.NCName(g.r))
		case vfRoleBase64:
			b := make([]byte, 1+g.r.Intn(20))
			g.r.Read(b)
			v.SetString(base64.StdEncoding.EncodeToString(b))
		case vfRoleHex:
			b := make([]byte, 20)
			g.r.Read(b)
			v.SetString(hex.EncodeToString(b))
		case vfRoleXHTML:
			v.SetString(g.xhtml())
		default:
			if t.Name() == "StanzaType" && g.r.Intn(2) == 0 {
				// the values the protocol defines: decoders may (wrongly) branch on them
				v.SetString([]string{"error", "get", "set", "result", "chat", "groupchat", "headline", "normal", "subscribe", "unavailable", "probe"}[g.r.Intn(11)])
			} else {
				v.SetString(g.text(!minimal))
			}
		}
	case reflect.Int, reflect.Int8, reflect.Int16, reflect.Int32, reflect.Int64:
		var x int64
		switch g.r.Intn(5) {
		case 0:
			x = 1
		case 1:
			x = -1
		case 2:
			x = 127
		case 3:
			x = -128
		default:
			x = int64(g.r.Intn(200) - 100)
		}
		if t.Kind() != reflect.Int8 && g.r.Intn(4) == 0 {
			x = int64(g.r.Int31())
		}
		if g.r.Intn(6) == 0 {
			ends := []int64{1<<15 - 1, -(1 << 15), 1<<31 - 1, -(1 << 31), 1 << 31, 1<<32 + 1, 1<<53 + 1, 1<<63 - 1, -(1 << 63)}
			x = ends[g.r.Intn(len(ends))]
			if bits := uint(t.Bits()); bits < 64 {
				lim := int64(1)<<(bits-1) - 1
				if x > lim {
					x = lim
				}
				if x < -lim-1 {
					x = -lim - 1
				}
			}
		}
		if minimal && x == 0 {
			x = 7
		}
		v.SetInt(x)
	case reflect.Uint, reflect.Uint8, reflect.Uint16, reflect.Uint32, reflect.Uint64:
		x := uint64(g.r.Intn(1000))
		if g.r.Intn(4) == 0 {
			x = uint64(g.r.Uint32())
		}
		if g.r.Intn(6) == 0 {
			// the ends of every width the type can hold (counters are plain uint: 64 bits here)
			ends := []uint64{1<<8 - 1, 1 << 8, 1<<16 - 1, 1 << 16, 1<<31 - 1, 1 << 31, 1<<32 - 1, 1 << 32, 1<<32 + 1, 1<<53 + 1, 1<<63 - 1, 1 << 63, 1<<64 - 1}
			x = ends[g.r.Intn(len(ends))]
			if bits := uint(t.Bits()); bits < 64 {
				x &= 1<<bits - 1
			}
		}
		if minimal && x == 0 {
			x = 7
		}
		v.SetUint(x)
	case reflect.Bool:
		v.SetBool(minimal || g.r.Intn(2) == 0)
	}
	return v
}

func vfIsScalar(t reflect.Type) bool {
	switch t.Kind() {
	case reflect.String, reflect.Bool, reflect.Int, reflect.Int8, reflect.Int16, reflect.Int32, reflect.Int64,
		reflect.Uint, reflect.Uint8, reflect.Uint16, reflect.Uint32, reflect.Uint64:
		return true
	}
	return false
}

func (g *vfGen) special(t reflect.Type, owner, field string) (reflect.Value, bool) {
	switch t {
	case vfTypXMLName:
		v := reflect.New(t).Elem()
		switch owner {
		case "ControlField":
			v.Set(reflect.ValueOf(xml.Name{Space: "urn:xmpp:iot:control", Local: vfkit.NCName(g.r)}))
		case "vfExtStar":
			v.Set(reflect.ValueOf(xml.Name{Space: "urn:vf:star", Local: vfkit.NCName(g.r)}))
		}
		return v, true // every other XMLName stays zero: the struct tag names the element
	case vfTypTime:
		if g.r.Intn(3) == 0 {
			return reflect.ValueOf(time.Time{}), true
		}
		return reflect.ValueOf(time.Unix(int64(g.r.Int31()), 0).UTC()), true
	case vfTypNullable:
		if g.r.Intn(3) == 0 {
			return reflect.ValueOf(NullableInt{}), true
		}
		return reflect.ValueOf(NewNullableInt(g.r.Intn(1000) - 100)), true
	case vfTypNode:
		return reflect.ValueOf(g.node(1)), true
	}
	return reflect.Value{}, false
}

func vfSkipField(sf reflect.StructField) bool {
	if sf.PkgPath != "" { // unexported
		return true
	}
	if sf.Anonymous && sf.Type.Kind() == reflect.Interface {
		return true // embedded MsgExtension / PresExtension marker
	}
	if strings.HasPrefix(sf.Tag.Get("xml"), "-") {
		return sf.Type != vfTypAttrs
	}
	return false
}

// random generates a random value of type t (depth counts struct levels).
func (g *vfGen) random(t reflect.Type, owner, field string, depth int) reflect.Value {
	if v, ok := g.special(t, owner, field); ok {
		return v
	}
	if vfIsScalar(t) {
		if g.r.Intn(3) == 0 {
			return reflect.Zero(t)
		}
		return g.scalar(t, owner, field, false)
	}
	switch t.Kind() {
	case reflect.Ptr:
		if g.r.Intn(2) == 0 || depth > 6 {
			return reflect.Zero(t)
		}
		p := reflect.New(t.Elem())
		p.Elem().Set(g.random(t.Elem(), owner, field, depth))
		if t.Elem() == vfTypErr && p.Elem().IsZero() {
			return reflect.Zero(t) // &Err{} is the library's "no error"
		}
		return p
	case reflect.Slice:
		if t == vfTypAttrs {
			return reflect.Zero(t)
		}
		n := g.r.Intn(4)
		if depth > 5 {
			n = 0
		}
		if n == 0 {
			return reflect.Zero(t)
		}
		s := reflect.MakeSlice(t, 0, n)
		for i := 0; i < n; i++ {
			e := g.random(t.Elem(), owner, field, depth)
			if (t.Elem().Kind() == reflect.Interface || t.Elem().Kind() == reflect.Ptr) && e.IsNil() {
				continue // a nil element in a slice is not a value "built from the library's types"
			}
			s = reflect.Append(s, e)
		}
		return s
	case reflect.Interface:
		alts := vfAlternatives(t, owner, field)
		if len(alts) == 0 || g.r.Intn(4) == 0 || depth > 6 {
			return reflect.Zero(t)
		}
		at := alts[g.r.Intn(len(alts))]
		v := reflect.New(t).Elem()
		v.Set(g.random2(at, depth))
		return v
	case reflect.Struct:
		v := reflect.New(t).Elem()
		for i := 0; i < t.NumField(); i++ {
			sf := t.Field(i)
			if vfSkipField(sf) {
				continue
			}
			if sf.Anonymous {
				v.Field(i).Set(g.random(sf.Type, t.Name(), sf.Name, depth))
				continue
			}
			v.Field(i).Set(g.random(sf.Type, t.Name(), sf.Name, depth+1))
		}
		return v
	}
	return reflect.Zero(t)
}

// random2 generates a non-nil value for an interface alternative (pointer types get a fresh target).
func (g *vfGen) random2(at reflect.Type, depth int) reflect.Value {
	if at.Kind() == reflect.Ptr {
		p := reflect.New(at.Elem())
		p.Elem().Set(g.random(at.Elem(), "", "", depth+1))
		return p
	}
	return g.random(at, "", "", depth+1)
}

// ---------------------------------------------------------------------------------------------
// path enumeration and focused generation (single-path probes)

func vfEnumPaths(t reflect.Type, owner, field string, depth int) [][]string {
	if t == vfTypXMLName {
		if owner == "ControlField" || owner == "vfExtStar" {
			return [][]string{{}}
		}
		return nil
	}
	if t == vfTypTime || t == vfTypNullable || t == vfTypNode || vfIsScalar(t) {
		return [][]string{{}}
	}
	if depth > 6 {
		return nil
	}
	switch t.Kind() {
	case reflect.Ptr:
		ps := vfEnumPaths(t.Elem(), owner, field, depth)
		if t.Elem().Kind() == reflect.Struct && t.Elem() != vfTypErr {
			ps = append(ps, []string{}) // presence of the (empty) element itself
		}
		return ps
	case reflect.Slice:
		if t == vfTypAttrs {
			return nil
		}
		return vfEnumPaths(t.Elem(), owner, field, depth)
	case reflect.Interface:
		var out [][]string
		for _, at := range vfAlternatives(t, owner, field) {
			inner := at
			if inner.Kind() == reflect.Ptr {
				inner = inner.Elem()
			}
			sub := vfEnumPaths(inner, "", "", depth+1)
			sub = append(sub, []string{})
			for _, p := range sub {
				out = append(out, append([]string{"(" + vfAltName(at) + ")"}, p...))
			}
		}
		return out
	case reflect.Struct:
		var out [][]string
		for i := 0; i < t.NumField(); i++ {
			sf := t.Field(i)
			if vfSkipField(sf) {
				continue
			}
			d := depth + 1
			if sf.Anonymous {
				d = depth
			}
			for _, p := range vfEnumPaths(sf.Type, t.Name(), sf.Name, d) {
				out = append(out, append([]string{sf.Name}, p...))
			}
		}
		return out
	}
	return nil
}

// focus builds the minimal value of type t in which only `path` is set.
func (g *vfGen) focus(t reflect.Type, owner, field string, path []string) reflect.Value {
	if v, ok := g.special(t, owner, field); ok && len(path) == 0 {
		// force a non-zero special
		switch t {
		case vfTypTime:
			return reflect.ValueOf(time.Unix(1500000000+int64(g.r.Intn(1000)), 0).UTC())
		case vfTypNullable:
			return reflect.ValueOf(NewNullableInt(1 + g.r.Intn(50)))
		}
		return v
	}
	if vfIsScalar(t) {
		return g.scalar(t, owner, field, true)
	}
	switch t.Kind() {
	case reflect.Ptr:
		p := reflect.New(t.Elem())
		p.Elem().Set(g.focus(t.Elem(), owner, field, path))
		return p
	case reflect.Slice:
		s := reflect.MakeSlice(t, 0, 1)
		return reflect.Append(s, g.focus(t.Elem(), owner, field, path))
	case reflect.Interface:
		if len(path) == 0 {
			return reflect.Zero(t)
		}
		for _, at := range vfAlternatives(t, owner, field) {
			if "("+vfAltName(at)+")" == path[0] {
				v := reflect.New(t).Elem()
				if at.Kind() == reflect.Ptr {
					p := reflect.New(at.Elem())
					p.Elem().Set(g.focus(at.Elem(), "", "", path[1:]))
					v.Set(p)
				} else {
					v.Set(g.focus(at, "", "", path[1:]))
				}
				return v
			}
		}
		return reflect.Zero(t)
	case reflect.Struct:
		v := reflect.New(t).Elem()
		// XMLName of name-carrying structs must always be set or Go cannot marshal them
		for i := 0; i < t.NumField(); i++ {
			sf := t.Field(i)
			if sf.Type == vfTypXMLName && (t.Name() == "ControlField" || t.Name() == "vfExtStar") {
				sv, _ := g.special(sf.Type, t.Name(), sf.Name)
				v.Field(i).Set(sv)
			}
		}
		if len(path) == 0 {
			return v
		}
		for i := 0; i < t.NumField(); i++ {
			sf := t.Field(i)
			if sf.Name == path[0] && !vfSkipField(sf) {
				v.Field(i).Set(g.focus(sf.Type, t.Name(), sf.Name, path[1:]))
			}
		}
		return v
	}
	return reflect.Zero(t)
}

// ---------------------------------------------------------------------------------------------
// normalising comparison

type vfDiff struct {
	loc    string // type-level location of the difference: Owner.Field[(dyn)]
	path   string // value-level path
	detail string
}

// vfCmp collects every difference (siblings of a differing field are still compared, so that one
// known asymmetry does not hide another one in the same value).
type vfCmp struct {
	diffs []vfDiff
}

func (c *vfCmp) fail(loc, path, detail string) bool {
	if len(c.diffs) < 8 {
		c.diffs = append(c.diffs, vfDiff{loc, path, detail})
	}
	return false
}

func vfDeref(v reflect.Value) reflect.Value {
	for v.IsValid() && (v.Kind() == reflect.Ptr || v.Kind() == reflect.Interface) {
		if v.IsNil() {
			return reflect.Value{}
		}
		v = v.Elem()
	}
	return v
}

func vfShort(v reflect.Value) string {
	if !v.IsValid() {
		return "<absent>"
	}
	s := fmt.Sprintf("%+v", v)
	if len(s) > 160 {
		s = s[:160] + "…"
	}
	return s
}

// eq: a is the original, b the parsed value.
func (c *vfCmp) eq(a, b reflect.Value, loc, path string) bool {
	switch a.Kind() {
	case reflect.Interface, reflect.Ptr:
		da, db := vfDeref(a), vfDeref(b)
		if !da.IsValid() && !db.IsValid() {
			return true
		}
		if !da.IsValid() || !db.IsValid() {
			dyn := ""
			if da.IsValid() {
				dyn = "(" + strings.Replace(da.Type().String(), "stanza.", "", 1) + ")"
			} else {
				dyn = "(" + strings.Replace(db.Type().String(), "stanza.", "", 1) + ")"
			}
			return c.fail(loc+dyn, path, fmt.Sprintf("original %s, parsed %s", vfShort(da), vfShort(db)))
		}
		if da.Type() != db.Type() {
			return c.fail(loc+"("+strings.Replace(da.Type().String(), "stanza.", "", 1)+")", path,
				fmt.Sprintf("dynamic type %s parsed back as %s", da.Type(), db.Type()))
		}
		np := path
		if a.Kind() == reflect.Interface {
			np = path + "(" + strings.Replace(da.Type().String(), "stanza.", "", 1) + ")"
		}
		return c.eq(da, db, loc, np)
	}
	if a.Type() != b.Type() {
		return c.fail(loc, path, fmt.Sprintf("type %s vs %s", a.Type(), b.Type()))
	}
	switch a.Type() {
	case vfTypXMLName:
		an := xml.Name{Space: a.Field(0).String(), Local: a.Field(1).String()}
		bn := xml.Name{Space: b.Field(0).String(), Local: b.Field(1).String()}
		if an.Local == "" && an.Space == "" {
			return true
		}
		if an.Local != bn.Local || (an.Space != "" && an.Space != bn.Space) {
			return c.fail(loc, path, fmt.Sprintf("name %v parsed back as %v", an, bn))
		}
		return true
	case vfTypTime:
		if a.CanInterface() && b.CanInterface() {
			if !a.Interface().(time.Time).Equal(b.Interface().(time.Time)) {
				return c.fail(loc, path, fmt.Sprintf("time %v parsed back as %v", a.Interface(), b.Interface()))
			}
		}
		return true
	}
	switch a.Kind() {
	case reflect.String:
		if a.String() != b.String() {
			return c.fail(loc, path, fmt.Sprintf("%q parsed back as %q", a.String(), b.String()))
		}
	case reflect.Bool:
		if a.Bool() != b.Bool() {
			return c.fail(loc, path, fmt.Sprintf("%v parsed back as %v", a.Bool(), b.Bool()))
		}
	case reflect.Int, reflect.Int8, reflect.Int16, reflect.Int32, reflect.Int64:
		if a.Int() != b.Int() {
			return c.fail(loc, path, fmt.Sprintf("%d parsed back as %d", a.Int(), b.Int()))
		}
	case reflect.Uint, reflect.Uint8, reflect.Uint16, reflect.Uint32, reflect.Uint64:
		if a.Uint() != b.Uint() {
			return c.fail(loc, path, fmt.Sprintf("%d parsed back as %d", a.Uint(), b.Uint()))
		}
	case reflect.Slice:
		if a.Len() != b.Len() {
			return c.fail(loc, path, fmt.Sprintf("%d elements parsed back as %d: %s vs %s", a.Len(), b.Len(), vfShort(a), vfShort(b)))
		}
		ok := true
		for i := 0; i < a.Len(); i++ {
			if !c.eq(a.Index(i), b.Index(i), loc, fmt.Sprintf("%s[%d]", path, i)) {
				ok = false
			}
		}
		return ok
	case reflect.Struct:
		t := a.Type()
		ok := true
		for i := 0; i < t.NumField(); i++ {
			sf := t.Field(i)
			if sf.Anonymous && sf.Type.Kind() == reflect.Interface {
				continue
			}
			if !c.eq(a.Field(i), b.Field(i), t.Name()+"."+sf.Name, path+"."+sf.Name) {
				ok = false
			}
		}
		return ok
	}
	return true
}

// ---------------------------------------------------------------------------------------------
// raw token skeletons (for the injection oracle)

type vfTok struct {
	Kind  string // S E T
	Name  string
	Attrs [][2]string
	Text  string
}

func vfSkeleton(b []byte) ([]vfTok, error) {
	d := xml.NewDecoder(strings.NewReader(string(b)))
	var out []vfTok
	for {
		t, err := d.RawToken()
		if err != nil {
			if err.Error() == "EOF" {
				return out, nil
			}
			return out, err
		}
		switch tt := t.(type) {
		case xml.StartElement:
			tk := vfTok{Kind: "S", Name: tt.Name.Space + ":" + tt.Name.Local}
			for _, a := range tt.Attr {
				tk.Attrs = append(tk.Attrs, [2]string{a.Name.Space + ":" + a.Name.Local, a.Value})
			}
			out = append(out, tk)
		case xml.EndElement:
			out = append(out, vfTok{Kind: "E", Name: tt.Name.Space + ":" + tt.Name.Local})
		case xml.CharData:
			if len(out) > 0 && out[len(out)-1].Kind == "T" {
				out[len(out)-1].Text += string(tt)
			} else {
				out = append(out, vfTok{Kind: "T", Text: string(tt)})
			}
		case xml.Comment:
			out = append(out, vfTok{Kind: "C", Text: string(tt)})
		case xml.ProcInst:
			out = append(out, vfTok{Kind: "P", Name: tt.Target, Text: string(tt.Inst)})
		case xml.Directive:
			out = append(out, vfTok{Kind: "D", Text: string(tt)})
		}
	}
}

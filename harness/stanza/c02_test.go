package stanza

// C02 — stream parsing: one packet per top-level element, right kind, total on any bytes.

import (
	"bufio"
	"encoding/xml"
	"fmt"
	"io"
	"math/rand"
	"os"
	"reflect"
	"strings"
	"sync"
	"sync/atomic"
	"testing"
	"time"

	"vfkit"
)

type vfExpect struct {
	Kind string `json:"kind"` // Go type name expected from NextPacket
	Type string `json:"type,omitempty"`
	Id   string `json:"id,omitempty"`
	From string `json:"from,omitempty"`
	To   string `json:"to,omitempty"`
	Lang string `json:"lang,omitempty"`
	// which addressing attributes the element kind carries
	Addr    bool   `json:"addr,omitempty"`
	HasLang bool   `json:"haslang,omitempty"`
	Feature string `json:"feature,omitempty"` // content feature used for violation keys
}

type vfStream struct {
	Header  string     `json:"header"`
	Elems   []string   `json:"elems"`
	Expect  []vfExpect `json:"expect"`
	Tail    string     `json:"tail"`     // "", close, unknown-ns, unknown-name
	Feature []string   `json:"features"` // per element
}

func (s *vfStream) bytes() string {
	return s.Header + strings.Join(s.Elems, "") + s.tailXML()
}

// tailXML: an unknown element is followed by a valid stanza, so that an implementation that silently skips the
// unknown element (instead of reporting an error for it) is seen returning that stanza.
func (s *vfStream) tailXML() string {
	t := s.tailElem()
	if strings.HasPrefix(s.Tail, "unknown-") {
		t += `<message id="after-unknown" from="a@b"><body>x</body></message>`
	}
	return t
}

func (s *vfStream) tailElem() string {
	switch s.Tail {
	case "close":
		return "</stream:stream>"
	case "unknown-ns":
		return `<foo xmlns="urn:vf:unknown"><message xmlns="jabber:client"/></foo>`
	case "unknown-name":
		return `<blah to="x"/>`
	case "unknown-sm":
		return `<zzz xmlns="urn:xmpp:sm:3"/>`
	case "unknown-stream":
		return `<stream:bogus/>`
	case "unknown-sasl":
		return `<challenge xmlns="urn:ietf:params:xml:ns:xmpp-sasl">abc</challenge>`
	}
	return ""
}

type vfXGen struct {
	r        *rand.Rand
	maxDepth int
}

func (g *vfXGen) escAttr(s string, q byte) string {
	var sb strings.Builder
	for _, c := range s {
		switch c {
		case '&':
			sb.WriteString("&amp;")
		case '<':
			sb.WriteString("&lt;")
		case '>':
			sb.WriteString("&gt;") // encoding/xml rejects a literal ]]> even inside attribute values
		case '"':
			if q == '"' {
				sb.WriteString("&quot;")
			} else {
				sb.WriteRune(c)
			}
		case '\'':
			if q == '\'' {
				sb.WriteString("&apos;")
			} else {
				sb.WriteRune(c)
			}
		case '\n':
			sb.WriteString("&#10;")
		case '\r':
			sb.WriteString("&#xD;")
		case '\t':
			sb.WriteString("&#9;")
		default:
			if g.r.Intn(30) == 0 {
				fmt.Fprintf(&sb, "&#x%X;", c)
			} else {
				sb.WriteRune(c)
			}
		}
	}
	return sb.String()
}

func (g *vfXGen) escText(s string) string {
	if g.r.Intn(5) == 0 && !strings.Contains(s, "]]>") && !strings.Contains(s, "\r") {
		return "<![CDATA[" + s + "]]>"
	}
	var sb strings.Builder
	for _, c := range s {
		switch c {
		case '&':
			sb.WriteString("&amp;")
		case '<':
			sb.WriteString("&lt;")
		case '>':
			sb.WriteString("&gt;")
		case '\r':
			sb.WriteString("&#13;")
		default:
			sb.WriteRune(c)
		}
	}
	return sb.String()
}

func (g *vfXGen) attr(name, val string) string {
	q := byte('"')
	if g.r.Intn(2) == 0 {
		q = '\''
	}
	sp := " "
	if g.r.Intn(8) == 0 {
		sp = "\n  "
	}
	return sp + name + "=" + string(q) + g.escAttr(val, q) + string(q)
}

func (g *vfXGen) ws() string {
	switch g.r.Intn(8) {
	case 0:
		return "\n"
	case 1:
		return " \t\r\n "
	case 2:
		return "<!-- c -->"
	case 3:
		return "<?pi x?>"
	}
	return ""
}

var vfTrickyNames = []string{"message", "presence", "iq", "body", "error", "thread", "show", "status", "priority", "subject", "x", "query", "stream", "features", "r", "a"}
var vfTrickyNS = []string{"jabber:client", "jabber:component:accept", "urn:vf:u1", "urn:vf:u2", "urn:xmpp:forward:0", "http://etherx.jabber.org/streams", "urn:xmpp:sm:3"}

// unknown builds an element of an unregistered namespace nested to the given depth whose descendants reuse stanza names.
func (g *vfXGen) unknown(depth int, ns string) string {
	return g.unknownAt(depth, ns, false)
}

// unknownTop builds an unknown child for the top level of a stanza: a name the stanza itself defines
// (body, priority, error...) is only used in a foreign namespace there - in the stanza's own namespace
// it would be a known child with malformed content, about which C02 says nothing.
func (g *vfXGen) unknownTop(depth int, ns string) string {
	return g.unknownAt(depth, ns, true)
}

func (g *vfXGen) unknownAt(depth int, ns string, top bool) string {
	name := "u" + vfkit.Plain(g.r, 2)
	tricky := false
	if g.r.Intn(2) == 0 {
		name = vfTrickyNames[g.r.Intn(len(vfTrickyNames))]
		tricky = true
	}
	var sb strings.Builder
	sb.WriteString("<" + name)
	cns := ns
	if g.r.Intn(2) == 0 || ns == "" || (top && tricky) {
		cns = vfTrickyNS[g.r.Intn(len(vfTrickyNS))]
		if top && tricky {
			cns = vfTrickyNS[2+g.r.Intn(len(vfTrickyNS)-2)] // never the stanza namespaces
		}
		sb.WriteString(g.attr("xmlns", cns))
	}
	if g.r.Intn(3) == 0 {
		sb.WriteString(g.attr(vfkit.NCName(g.r), vfkit.Text(g.r, 8, true)))
	}
	if g.r.Intn(4) == 0 {
		sb.WriteString(g.attr([]string{"id", "to", "from", "type"}[g.r.Intn(4)], "inner"))
	}
	if depth <= 0 && g.r.Intn(3) == 0 {
		sb.WriteString("/>")
		return sb.String()
	}
	sb.WriteString(">")
	if depth > 0 {
		k := 1
		if depth < 4 {
			k = 1 + g.r.Intn(3)
		}
		for i := 0; i < k; i++ {
			sb.WriteString(g.ws())
			sb.WriteString(g.unknown(depth-1-g.r.Intn(2), cns))
		}
	}
	if g.r.Intn(2) == 0 {
		sb.WriteString(g.escText(vfkit.Text(g.r, 12, true)))
	}
	sb.WriteString("</" + name + ">")
	return sb.String()
}

var vfKnownMsgExt = []string{
	`<delegation xmlns="urn:xmpp:delegation:1"><forwarded xmlns="urn:xmpp:forward:0"><delay xmlns="urn:xmpp:delay" stamp="2020-01-01T00:00:00Z"/><message xmlns="jabber:client" id="fwd"><body>x</body></message></forwarded></delegation>`,
	`<delegation xmlns="urn:xmpp:delegation:1"><delegated namespace="urn:x"/><unknown-inside xmlns="urn:vf:u1"><message xmlns="jabber:client"/></unknown-inside></delegation>`,
	`<event xmlns="http://jabber.org/protocol/pubsub#event"><items node="n"><retract node="r"/><item id="i"><entry xmlns="http://www.w3.org/2005/Atom"><title>t</title></entry></item><vf-extra xmlns="urn:vf:u2"/></items><vf-more xmlns="urn:vf:u2"><iq xmlns="jabber:client"/></vf-more></event>`,
	`<active xmlns="http://jabber.org/protocol/chatstates"/>`, `<request xmlns="urn:xmpp:receipts"/>`, `<received xmlns="urn:xmpp:receipts" id="r1"/>`,
	`<x xmlns="jabber:x:oob"><url>http://x/y</url></x>`, `<no-store xmlns="urn:xmpp:hints"/>`, `<markable xmlns="urn:xmpp:chat-markers:0"/>`,
	`<html xmlns="http://jabber.org/protocol/xhtml-im"><body xmlns="http://www.w3.org/1999/xhtml"><p>hi<message/></p></body></html>`,
	`<event xmlns="http://jabber.org/protocol/pubsub#event"><items node="n"><item id="i"><message xmlns="jabber:client"><body>in</body></message></item></items></event>`,
}
var vfKnownIQPayload = []string{
	`<delegation xmlns="urn:xmpp:delegation:1"><forwarded xmlns="urn:xmpp:forward:0"><delay xmlns="urn:xmpp:delay" stamp="2020-01-01T00:00:00Z"/><iq xmlns="jabber:client" id="fwd" type="get"><query xmlns="jabber:iq:version"/></iq></forwarded></delegation>`,
	`<query xmlns="http://jabber.org/protocol/disco#info"><identity category="c" type="t"><vf-x xmlns="urn:vf:u1"/></identity><vf-y xmlns="urn:vf:u1"><iq xmlns="jabber:client"/></vf-y></query>`,
	`<command xmlns="http://jabber.org/protocol/commands" node="n" status="executing"><actions execute="next"><next/><vf-z xmlns="urn:vf:u2"/></actions><x xmlns="jabber:x:data" type="form"><field var="a"><value>1</value><vf-w xmlns="urn:vf:u2"/></field></x></command>`,
	`<pubsub xmlns="http://jabber.org/protocol/pubsub#owner"><configure node="n"><x xmlns="jabber:x:data" type="submit"/><vf-v xmlns="urn:vf:u1"/></configure></pubsub>`,
	`<query xmlns="http://jabber.org/protocol/disco#info"><identity category="c" type="t"/><feature var="f"/></query>`,
	`<query xmlns="jabber:iq:version"><name>n</name></query>`, `<query xmlns="jabber:iq:roster"><item jid="a@b"><group>g</group></item></query>`,
	`<bind xmlns="urn:ietf:params:xml:ns:xmpp-bind"><jid>a@b/c</jid></bind>`,
	`<pubsub xmlns="http://jabber.org/protocol/pubsub"><publish node="n"><item><iq xmlns="jabber:client" id="inner" type="get"/></item></publish></pubsub>`,
	`<command xmlns="http://jabber.org/protocol/commands" node="n"><note type="info">t</note><iq xmlns="urn:vf:u1"/></command>`,
}

func (g *vfXGen) addressing(e *vfExpect, types []string, n int, withLang bool) string {
	var parts []string
	if g.r.Intn(4) != 0 {
		e.Type = types[g.r.Intn(len(types))]
		parts = append(parts, g.attr("type", e.Type))
	}
	if g.r.Intn(5) != 0 {
		e.Id = fmt.Sprintf("e%d-%s", n, vfkit.Text(g.r, 6, true))
		parts = append(parts, g.attr("id", e.Id))
	}
	if g.r.Intn(3) != 0 {
		e.From = vfkit.Text(g.r, 10, false)
		parts = append(parts, g.attr("from", e.From))
	}
	if g.r.Intn(3) != 0 {
		e.To = vfkit.Text(g.r, 10, false)
		parts = append(parts, g.attr("to", e.To))
	}
	if withLang && g.r.Intn(3) == 0 {
		e.Lang = []string{"en", "fr-CA", "zh-Hant", vfkit.Plain(g.r, 2)}[g.r.Intn(4)]
		if g.r.Intn(2) == 0 {
			parts = append(parts, g.attr("xml:lang", e.Lang))
		} else {
			parts = append(parts, g.attr("lang", e.Lang))
		}
	}
	if g.r.Intn(12) == 0 {
		// a foreign-namespace attribute with an addressing local name is not an addressing attribute
		parts = append(parts, g.attr("xmlns:vfp", "urn:vf:attrns"), g.attr("vfp:"+[]string{"to", "from", "id", "type"}[g.r.Intn(4)], "FOREIGN"))
		e.Feature = "foreign-ns-addressing-attribute"
	}
	g.r.Shuffle(len(parts), func(i, j int) { parts[i], parts[j] = parts[j], parts[i] })
	return strings.Join(parts, "")
}

// element returns one top-level element and what NextPacket must report for it.
func (g *vfXGen) element(n int, ns string, explicitNS bool) (string, vfExpect) {
	xmlns := ""
	if explicitNS {
		xmlns = g.attr("xmlns", ns)
	}
	deep := func() int {
		if g.r.Intn(20) == 0 {
			return g.maxDepth
		}
		return g.r.Intn(4)
	}
	feat := func(e *vfExpect, f string) {
		if e.Feature == "" {
			e.Feature = f
		}
	}
	switch k := g.r.Intn(20); {
	case k < 5:
		e := vfExpect{Kind: "Message", Addr: true, HasLang: true}
		a := g.addressing(&e, []string{"chat", "normal", "groupchat", "headline", "error"}, n, true)
		var ch []string
		for i := g.r.Intn(5); i > 0; i-- {
			switch g.r.Intn(8) {
			case 0:
				ch = append(ch, "<body>"+g.escText(vfkit.Text(g.r, 20, true))+"</body>")
			case 1:
				ch = append(ch, "<subject>"+g.escText(vfkit.Text(g.r, 10, true))+"</subject>", "<thread>t</thread>")
			case 2:
				ch = append(ch, vfKnownMsgExt[g.r.Intn(len(vfKnownMsgExt))])
				feat(&e, "registered-extension")
			case 3:
				ch = append(ch, `<error type="cancel"><item-not-found xmlns="urn:ietf:params:xml:ns:xmpp-stanzas"/><text xmlns="urn:ietf:params:xml:ns:xmpp-stanzas">gone</text></error>`)
			default:
				ch = append(ch, g.unknownTop(deep(), ns))
				feat(&e, "unknown-child")
			}
		}
		return "<message" + xmlns + a + ">" + g.join(ch) + "</message>", e
	case k < 8:
		e := vfExpect{Kind: "Presence", Addr: true, HasLang: true}
		a := g.addressing(&e, []string{"unavailable", "subscribe", "subscribed", "probe", "error"}, n, true)
		var ch []string
		for i := g.r.Intn(5); i > 0; i-- {
			switch g.r.Intn(8) {
			case 0:
				ch = append(ch, "<show>away</show>")
			case 1:
				ch = append(ch, "<status>"+g.escText(vfkit.Text(g.r, 10, true))+"</status>")
			case 2:
				ch = append(ch, fmt.Sprintf("<priority>%d</priority>", g.r.Intn(256)-128))
			case 3:
				ch = append(ch, `<x xmlns="http://jabber.org/protocol/muc"><history maxstanzas="3"/></x>`)
				feat(&e, "registered-extension")
			default:
				ch = append(ch, g.unknownTop(deep(), ns))
				feat(&e, "unknown-child")
			}
		}
		return "<presence" + xmlns + a + ">" + g.join(ch) + "</presence>", e
	case k < 12:
		e := vfExpect{Kind: "*IQ", Addr: true, HasLang: true}
		a := g.addressing(&e, []string{"get", "set", "result", "error"}, n, true)
		var ch []string
		for i := g.r.Intn(4); i > 0; i-- {
			switch g.r.Intn(5) {
			case 0:
				ch = append(ch, vfKnownIQPayload[g.r.Intn(len(vfKnownIQPayload))])
				feat(&e, "registered-payload")
			case 1:
				ch = append(ch, `<error type="cancel"><feature-not-implemented xmlns="urn:ietf:params:xml:ns:xmpp-stanzas"/></error>`)
			default:
				ch = append(ch, g.unknown(deep(), ""))
				feat(&e, "unknown-child")
			}
		}
		if len(ch) >= 2 {
			e.Feature += "+several-children"
		}
		return "<iq" + xmlns + a + ">" + g.join(ch) + "</iq>", e
	case k < 13:
		var ch []string
		if g.r.Intn(2) == 0 {
			ch = append(ch, `<starttls xmlns="urn:ietf:params:xml:ns:xmpp-tls"><required/></starttls>`)
		}
		if g.r.Intn(2) == 0 {
			ch = append(ch, `<mechanisms xmlns="urn:ietf:params:xml:ns:xmpp-sasl"><mechanism>PLAIN</mechanism><mechanism>X</mechanism></mechanisms>`)
		}
		if g.r.Intn(2) == 0 {
			ch = append(ch, `<bind xmlns="urn:ietf:params:xml:ns:xmpp-bind"/>`, `<sm xmlns="urn:xmpp:sm:3"/>`, `<session xmlns="urn:ietf:params:xml:ns:xmpp-session"><optional/></session>`)
		}
		if g.r.Intn(2) == 0 {
			ch = append(ch, g.unknown(g.r.Intn(3), ""))
		}
		ft := "features"
		if g.r.Intn(3) == 0 {
			// a feature this library does not know, named like one it knows but in another namespace (XEP-0386's
			// <bind xmlns='urn:xmpp:bind:0'/>, say): an unknown child like any other
			nm := []string{"bind", "session", "starttls", "mechanisms", "compression", "sm", "c", "register", "mechanism", "required", "optional"}[g.r.Intn(11)]
			fns := []string{"urn:xmpp:bind:0", "urn:xmpp:sasl:2", "urn:vf:other-features", "jabber:client"}[g.r.Intn(4)]
			inner := ""
			if g.r.Intn(2) == 0 {
				inner = "<inline><feature var='urn:xmpp:sm:3'/></inline>"
			}
			p := g.r.Intn(len(ch) + 1)
			ch = append(ch[:p], append([]string{"<" + nm + " xmlns='" + fns + "'>" + inner + "</" + nm + ">"}, ch[p:]...)...)
			ft = "features+foreign-ns-known-name"
		}
		return "<stream:features>" + g.join(ch) + "</stream:features>", vfExpect{Kind: "StreamFeatures", Feature: ft}
	case k < 14:
		cond := []string{"conflict", "host-unknown", "not-well-formed", "system-shutdown", "vf-unknown-condition"}[g.r.Intn(5)]
		s := `<stream:error><` + cond + ` xmlns="urn:ietf:params:xml:ns:xmpp-streams"/>`
		if g.r.Intn(2) == 0 {
			s += `<text xmlns="urn:ietf:params:xml:ns:xmpp-streams">` + g.escText(vfkit.Text(g.r, 10, true)) + `</text>`
		}
		return s + g.extra() + "</stream:error>", vfExpect{Kind: "StreamError", Feature: "stream-error"}
	case k < 15:
		if g.r.Intn(2) == 0 {
			return `<success xmlns="urn:ietf:params:xml:ns:xmpp-sasl">` + vfkit.Plain(g.r, g.r.Intn(8)) + g.extra() + `</success>`, vfExpect{Kind: "SASLSuccess", Feature: "sasl"}
		}
		cond := []string{"not-authorized", "aborted", "temporary-auth-failure", "vf-unknown"}[g.r.Intn(4)]
		return `<failure xmlns="urn:ietf:params:xml:ns:xmpp-sasl"><` + cond + `/><text xml:lang="en">no</text>` + g.extra() + `</failure>`, vfExpect{Kind: "SASLFailure", Feature: "sasl"}
	case k < 19:
		switch g.r.Intn(7) {
		case 0:
			x := g.extra()
			if x == "" {
				return `<enabled xmlns="urn:xmpp:sm:3"` + g.attr("id", vfkit.Text(g.r, 8, false)) + ` resume="true" max="300"/>`, vfExpect{Kind: "SMEnabled", Feature: "sm"}
			}
			return `<enabled xmlns="urn:xmpp:sm:3"` + g.attr("id", vfkit.Text(g.r, 8, false)) + ` resume="true" max="300">` + x + `</enabled>`, vfExpect{Kind: "SMEnabled", Feature: "sm+children"}
		case 1:
			return fmt.Sprintf(`<resumed xmlns="urn:xmpp:sm:3" previd="p" h="%d">%s</resumed>`, g.r.Intn(1000), g.extra()), vfExpect{Kind: "SMResumed", Feature: "sm+children"}
		case 2:
			return fmt.Sprintf(`<resume xmlns="urn:xmpp:sm:3" previd="p" h="%d">%s</resume>`, g.r.Intn(1000), g.extra()), vfExpect{Kind: "SMResume", Feature: "sm+children"}
		case 3:
			if x := g.extra(); x != "" {
				return `<r xmlns="urn:xmpp:sm:3">` + x + `</r>`, vfExpect{Kind: "SMRequest", Feature: "sm+children"}
			}
			return `<r xmlns="urn:xmpp:sm:3"/>`, vfExpect{Kind: "SMRequest", Feature: "sm"}
		case 4:
			return fmt.Sprintf(`<a xmlns="urn:xmpp:sm:3" h="%d">%s</a>`, g.r.Intn(100000), g.extra()), vfExpect{Kind: "SMAnswer", Feature: "sm+children"}
		default:
			conds := []string{"", `<unexpected-request xmlns="urn:ietf:params:xml:ns:xmpp-stanzas"/>`, `<item-not-found xmlns="urn:ietf:params:xml:ns:xmpp-stanzas"/>`,
				`<feature-not-implemented xmlns="urn:ietf:params:xml:ns:xmpp-stanzas"/>`, `<internal-server-error xmlns="urn:ietf:params:xml:ns:xmpp-stanzas"/>`,
				`<service-unavailable xmlns="urn:ietf:params:xml:ns:xmpp-stanzas"/><text xmlns="urn:ietf:params:xml:ns:xmpp-stanzas">x</text>`}
			ci := g.r.Intn(len(conds))
			h := ""
			if g.r.Intn(2) == 0 {
				h = fmt.Sprintf(` h="%d"`, g.r.Intn(50))
			}
			f := "sm-failed"
			if ci >= 2 && ci != 4 {
				f = "sm-failed-stanza-condition"
			}
			return `<failed xmlns="urn:xmpp:sm:3"` + h + `>` + conds[ci] + g.extra() + `</failed>`, vfExpect{Kind: "SMFailed", Feature: f}
		}
	default:
		return `<handshake xmlns="jabber:component:accept">` + vfkit.Plain(g.r, g.r.Intn(40)) + `</handshake>`, vfExpect{Kind: "Handshake", Feature: "handshake"}
	}
}

// extra returns 0-2 unknown children (possibly nested, possibly named like stanzas) that any element may contain.
func (g *vfXGen) extra() string {
	if g.r.Intn(3) != 0 {
		return ""
	}
	var sb strings.Builder
	for i := 1 + g.r.Intn(2); i > 0; i-- {
		sb.WriteString(g.ws())
		sb.WriteString(g.unknown(g.r.Intn(4), ""))
	}
	return sb.String()
}

func (g *vfXGen) join(ch []string) string {
	var sb strings.Builder
	for _, c := range ch {
		sb.WriteString(g.ws())
		sb.WriteString(c)
	}
	sb.WriteString(g.ws())
	return sb.String()
}

func (g *vfXGen) stream(n int) *vfStream {
	s := &vfStream{}
	ns := NSClient
	explicit := false
	switch g.r.Intn(4) {
	case 0:
		ns = NSComponent
		s.Header = `<?xml version='1.0'?><stream:stream xmlns='jabber:component:accept' xmlns:stream='http://etherx.jabber.org/streams' id='c1' from='comp.example'>`
	case 1:
		explicit = true
		s.Header = `<open xmlns="urn:ietf:params:xml:ns:xmpp-framing" id="ws1" version="1.0" from="example.org"/>`
	default:
		s.Header = `<?xml version='1.0'?><stream:stream xmlns='jabber:client' xmlns:stream='http://etherx.jabber.org/streams' id='s1' version='1.0' from='example.org'>`
	}
	k := 1 + g.r.Intn(12)
	for i := 0; i < k; i++ {
		x, e := g.element(n*100+i, ns, explicit)
		if explicit && strings.HasPrefix(x, "<stream:") {
			x = strings.Replace(x, ">", ` xmlns:stream="http://etherx.jabber.org/streams">`, 1)
		}
		s.Elems = append(s.Elems, x+g.ws())
		s.Expect = append(s.Expect, e)
	}
	tails := []string{"", "close", "unknown-ns", "unknown-name", "unknown-sm", "unknown-stream", "unknown-sasl"}
	s.Tail = tails[g.r.Intn(len(tails))]
	if explicit && (s.Tail == "close" || s.Tail == "unknown-stream" || s.Tail == "unknown-name") {
		s.Tail = "unknown-ns"
	}
	return s
}

// ---------------------------------------------------------------------------------------------
// readers with different segmentations

type vfChunkReader struct {
	data []byte
	pos  int
	r    *rand.Rand
	mode int // 0 whole, 1 byte-wise, 2 random chunks
}

func (c *vfChunkReader) Read(p []byte) (int, error) {
	if c.pos >= len(c.data) {
		return 0, io.EOF
	}
	n := len(c.data) - c.pos
	switch c.mode {
	case 1:
		n = 1
	case 2:
		m := 1 + c.r.Intn(17)
		if c.r.Intn(10) == 0 {
			m = 1 + c.r.Intn(400)
		}
		if m < n {
			n = m
		}
	}
	if n > len(p) {
		n = len(p)
	}
	copy(p, c.data[c.pos:c.pos+n])
	c.pos += n
	return n, nil
}

func vfDecoderFor(data []byte, seg int, r *rand.Rand) *xml.Decoder {
	cr := &vfChunkReader{data: data, r: r, mode: seg % 3}
	if seg >= 3 {
		return xml.NewDecoder(bufio.NewReaderSize(cr, 32768)) // as the transports wrap their sockets
	}
	return xml.NewDecoder(cr)
}

type vfGot struct {
	Kind                     string
	Type, Id, From, To, Lang string
	Err                      string
}

func vfDescribe(p Packet) vfGot {
	g := vfGot{Kind: strings.Replace(reflect.TypeOf(p).String(), "stanza.", "", 1)}
	switch v := p.(type) {
	case Message:
		g.Type, g.Id, g.From, g.To, g.Lang = string(v.Type), v.Id, v.From, v.To, v.Lang
	case Presence:
		g.Type, g.Id, g.From, g.To, g.Lang = string(v.Type), v.Id, v.From, v.To, v.Lang
	case *IQ:
		if v != nil {
			g.Type, g.Id, g.From, g.To, g.Lang = string(v.Type), v.Id, v.From, v.To, v.Lang
		}
	}
	return g
}

// vfReadAll calls NextPacket until it returns an error, at most limit times.
func vfReadAll(d *xml.Decoder, limit int) (out []vfGot, nilnil bool, panicked string) {
	defer func() {
		if p := recover(); p != nil {
			panicked = fmt.Sprint(p)
		}
	}()
	if _, err := InitStream(d); err != nil {
		return append(out, vfGot{Err: "initstream: " + err.Error()}), false, ""
	}
	for i := 0; i < limit; i++ {
		p, err := NextPacket(d)
		if err != nil {
			out = append(out, vfGot{Err: err.Error()})
			return
		}
		if p == nil {
			nilnil = true
			return
		}
		out = append(out, vfDescribe(p))
		if _, ok := p.(StreamClosePacket); ok {
			return
		}
	}
	return
}

func vfC02CheckStream(run *vfkit.Run, s *vfStream, segSeed int64) {
	data := []byte(s.bytes())
	var first []vfGot
	for seg := 0; seg < 6; seg++ {
		got, nilnil, pan := vfReadAll(vfDecoderFor(data, seg, rand.New(rand.NewSource(segSeed+int64(seg)))), len(s.Expect)+3)
		if pan != "" {
			run.Violation("C02/panic:valid-stream", "panic on a well-formed stream: "+pan, s)
			return
		}
		if nilnil {
			run.Violation("C02/nil-packet-nil-error", "NextPacket returned (nil, nil)", s)
			return
		}
		if seg == 0 {
			first = got
			for i, e := range s.Expect {
				feature := e.Feature
				if feature == "" {
					feature = "plain"
				}
				if i >= len(got) {
					run.Violation("C02/too-few-packets", fmt.Sprintf("element %d (%s) never reported; got %d results", i, e.Kind, len(got)), s)
					return
				}
				g := got[i]
				if g.Err != "" {
					run.Violation("C02/error-on-valid-element:"+e.Kind+":"+feature, fmt.Sprintf("element %d %s: NextPacket error %q — element: %s", i, e.Kind, g.Err, vfClip(s.Elems[i], 500)), s)
					return
				}
				if g.Kind != e.Kind {
					run.Violation("C02/wrong-kind:"+e.Kind+":"+feature, fmt.Sprintf("element %d: expected %s, got %s — element: %s", i, e.Kind, g.Kind, vfClip(s.Elems[i], 500)), s)
					return
				}
				if e.Addr {
					if g.Type != e.Type || g.Id != e.Id || g.From != e.From || g.To != e.To {
						run.Violation("C02/wrong-addressing:"+e.Kind+":"+feature, fmt.Sprintf("element %d %s: expected type=%q id=%q from=%q to=%q, got type=%q id=%q from=%q to=%q — element: %s",
							i, e.Kind, e.Type, e.Id, e.From, e.To, g.Type, g.Id, g.From, g.To, vfClip(s.Elems[i], 500)), s)
						return
					}
					if e.HasLang && g.Lang != e.Lang {
						run.Violation("C02/wrong-lang:"+e.Kind, fmt.Sprintf("element %d %s: expected lang=%q got %q — element: %s", i, e.Kind, e.Lang, g.Lang, vfClip(s.Elems[i], 300)), s)
						return
					}
				}
				run.Count("elements_matched", 1)
			}
			// what follows the expected elements
			rest := got[len(s.Expect):]
			switch s.Tail {
			case "close":
				if len(rest) != 1 || rest[0].Kind != "StreamClosePacket" {
					run.Violation("C02/stream-close-not-reported", fmt.Sprintf("after %d elements expected the stream close, got %+v", len(s.Expect), rest), s)
					return
				}
			case "":
				if len(rest) != 1 || rest[0].Err == "" {
					run.Violation("C02/extra-packet-at-eof", fmt.Sprintf("after %d elements expected an error at end of input, got %+v", len(s.Expect), rest), s)
					return
				}
			default:
				if len(rest) != 1 || rest[0].Err == "" {
					run.Violation("C02/unknown-element-accepted:"+s.Tail, fmt.Sprintf("unknown element %s must yield an error, got %+v", s.tailXML(), rest), s)
					return
				}
				run.Count("unknown_elements_rejected", 1)
			}
		} else if !reflect.DeepEqual(got, first) {
			run.Violation("C02/segmentation-dependent", fmt.Sprintf("segmentation %d gives %+v, whole-buffer read gives %+v", seg, got, first), s)
			return
		}
	}
	run.Count("segmentations_compared", 6)
	run.Nontrivial(string(data))
}

// ---------------------------------------------------------------------------------------------
// totality

type vfWatch struct {
	mu    sync.Mutex
	start map[int]time.Time
	input map[int][]byte
}

func vfMutate(r *rand.Rand, b []byte) []byte {
	out := append([]byte(nil), b...)
	n := 1 + r.Intn(3)
	for i := 0; i < n && len(out) > 0; i++ {
		p := r.Intn(len(out))
		switch r.Intn(9) {
		case 0:
			out[p] ^= 1 << uint(r.Intn(8))
		case 1:
			out = append(out[:p], out[p+1:]...)
		case 2:
			q := p + r.Intn(40)
			if q > len(out) {
				q = len(out)
			}
			out = append(out[:p], out[q:]...)
		case 3:
			q := p + r.Intn(40)
			if q > len(out) {
				q = len(out)
			}
			dup := append([]byte(nil), out[p:q]...)
			out = append(out[:q], append(dup, out[q:]...)...)
		case 4:
			ins := []string{"<", "&", "]]>", "\x00", "\xff\xfe", "</", "<!--", "<![CDATA[", "&#x0;", "&#xFFFFFFFF;", "<?xml", "\"", "'", ">", "/>", "<!DOCTYPE x [", "&unknown;", "xmlns=''", "\xc3"}
			s := ins[r.Intn(len(ins))]
			out = append(out[:p], append([]byte(s), out[p:]...)...)
		case 5:
			out = out[:p]
		case 6:
			out[p] = byte(r.Intn(256))
		case 7:
			// swap two regions
			q := r.Intn(len(out))
			out[p], out[q] = out[q], out[p]
		case 8:
			out = append(out[:p], append([]byte("<a><b><c>"), out[p:]...)...)
		}
	}
	return out
}

func TestVf_C02(t *testing.T) {
	run := vfkit.Open("C02", "grammar-generated streams (client / component / framing header; 1-12 top-level elements of every kind NextPacket knows, random addressing, "+
		"known children, registered extensions, unknown-namespace children nested up to depth d whose descendants reuse stanza names, CDATA/comments/PIs/char refs) "+
		"parsed under 6 segmentations (whole, byte-wise, random chunks; bare and behind a 32 KiB bufio reader) and compared with the generator's expected list; "+
		"totality corpus = every truncation of sampled streams + mutated and random byte strings, each call watched for panic, (nil,nil) and a 10 s CPU watchdog; "+
		"non-trivial = distinct valid stream with >=1 element fully matched")
	defer run.Close()

	var rs vfStream
	if run.ReplayCase(&rs) && rs.Header != "" {
		run.Case(rs)
		vfC02CheckStream(run, &rs, 1)
		return
	}
	var rb struct {
		Bytes []byte `json:"bytes"`
	}
	if run.ReplayCase(&rb) && len(rb.Bytes) > 0 {
		run.Case(rb)
		got, nn, pan := vfReadAll(xml.NewDecoder(strings.NewReader(string(rb.Bytes))), 1000)
		t.Logf("replay: %+v nilnil=%v panic=%q", got, nn, pan)
		if pan != "" {
			run.Violation("C02/panic:arbitrary-bytes", pan, rb)
		}
		return
	}

	nstreams := vfkit.Pick(2000, 60000)
	depth := vfkit.Pick(200, 5000)
	var valid [][]byte
	var vmu sync.Mutex
	var wg sync.WaitGroup
	workers := 16
	for wk := 0; wk < workers; wk++ {
		wg.Add(1)
		go func(wk int) {
			defer wg.Done()
			for c := wk; c < nstreams; c += workers {
				g := &vfXGen{r: rand.New(rand.NewSource(vfkit.Seed()*1000003 + int64(c))), maxDepth: depth}
				s := g.stream(c)
				if c%100 == 0 {
					run.Case(s)
				} else {
					run.CaseQuiet()
				}
				if c < 2 {
					run.Sample(map[string]interface{}{"stream": vfClip(s.bytes(), 1500), "expect": s.Expect})
				}
				run.Count("top_level_elements", int64(len(s.Expect)))
				vfC02CheckStream(run, s, int64(c))
				if c%20 == 0 && len(s.bytes()) < 3000 {
					vmu.Lock()
					valid = append(valid, []byte(s.bytes()))
					vmu.Unlock()
				}
			}
		}(wk)
	}
	wg.Wait()

	// totality: truncations + mutations + random bytes, under a watchdog
	var inputs [][]byte
	r := vfkit.Rand(2)
	ntrunc := vfkit.Pick(6, 60)
	for i := 0; i < ntrunc && i < len(valid); i++ {
		b := valid[i]
		for k := 0; k <= len(b); k++ {
			inputs = append(inputs, b[:k])
		}
		run.Count("truncation_points", int64(len(b)+1))
	}
	nmut := vfkit.Pick(20000, 2000000)
	for i := 0; i < nmut; i++ {
		if len(valid) == 0 {
			break
		}
		if i%10 == 0 {
			rb := make([]byte, r.Intn(200))
			r.Read(rb)
			if r.Intn(2) == 0 {
				rb = append([]byte("<stream:stream xmlns='jabber:client' xmlns:stream='http://etherx.jabber.org/streams'>"), rb...)
			}
			inputs = append(inputs, rb)
		} else {
			inputs = append(inputs, vfMutate(r, valid[r.Intn(len(valid))]))
		}
	}
	run.Count("totality_inputs", int64(len(inputs)))
	work := os.Getenv("VF_WORK")
	var cur [16]atomic.Value
	var curStart [16]int64
	done := make(chan struct{})
	var mon sync.WaitGroup
	mon.Add(1)
	go func() { // CPU-bound watchdog: a call still running after 10 s on <=64 KiB is a violation
		defer mon.Done()
		tk := time.NewTicker(500 * time.Millisecond)
		defer tk.Stop()
		for {
			select {
			case <-done:
				return
			case <-tk.C:
				for w := 0; w < 16; w++ {
					st := atomic.LoadInt64(&curStart[w])
					if st != 0 && time.Since(time.Unix(0, st)) > 10*time.Second {
						b, _ := cur[w].Load().([]byte)
						run.Violation("C02/no-return-in-bounded-time", fmt.Sprintf("NextPacket loop still running after 10s on %d bytes", len(b)), map[string]interface{}{"bytes": b})
						run.Close()
						os.Exit(1)
					}
				}
			}
		}
	}()
	var outcomes [3]int64
	for wk := 0; wk < 16; wk++ {
		wg.Add(1)
		go func(wk int) {
			defer wg.Done()
			var jf *os.File
			if work != "" {
				jf, _ = os.Create(fmt.Sprintf("%s/c02-input-%d.bin", work, wk))
			}
			for i := wk; i < len(inputs); i += 16 {
				b := inputs[i]
				if jf != nil && i%64 == wk { // keep the current input of every 64th case on disk
					jf.Truncate(0)
					jf.WriteAt(b, 0)
				}
				cur[wk].Store(b)
				atomic.StoreInt64(&curStart[wk], time.Now().UnixNano())
				got, nilnil, pan := vfReadAll(vfDecoderFor(b, i%6, rand.New(rand.NewSource(int64(i)))), 64)
				atomic.StoreInt64(&curStart[wk], 0)
				run.CaseQuiet()
				if pan != "" {
					run.Violation("C02/panic:arbitrary-bytes", "panic: "+pan, map[string]interface{}{"bytes": b, "text": string(b)})
					continue
				}
				if nilnil {
					run.Violation("C02/nil-packet-nil-error", "NextPacket returned (nil, nil)", map[string]interface{}{"bytes": b, "text": string(b)})
					continue
				}
				if len(got) > 0 && got[len(got)-1].Err != "" {
					atomic.AddInt64(&outcomes[0], 1)
				} else if len(got) > 0 && got[len(got)-1].Kind == "StreamClosePacket" {
					atomic.AddInt64(&outcomes[1], 1)
				} else {
					atomic.AddInt64(&outcomes[2], 1)
				}
			}
			if jf != nil {
				jf.Close()
			}
		}(wk)
	}
	wg.Wait()
	close(done)
	mon.Wait()
	run.Count("totality_ended_in_error", outcomes[0])
	run.Count("totality_ended_in_stream_close", outcomes[1])
	run.Count("totality_hit_call_limit", outcomes[2])
	if run.NViolations() > 0 {
		t.Fail()
	}
}

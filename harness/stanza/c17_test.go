package stanza

// C17 — the unacknowledged-stanza queue is a FIFO with increasing sequence numbers.
// Lock-step reference model (slice FIFO) over random operation sequences.

import (
	"fmt"
	"strings"
	"testing"

	"vfkit"
)

type vfQOp struct {
	Op  string `json:"op"`
	K   int    `json:"k,omitempty"`
	Stz string `json:"stz,omitempty"`
}

type vfRefQ struct {
	items []string
}

func vfQContents(q *UnAckQueue) []string {
	var r []string
	for _, e := range q.Uslice {
		if e == nil {
			r = append(r, "<nil>")
		} else {
			r = append(r, e.Stz)
		}
	}
	return r
}

func vfQueueablesToStrings(qs []Queueable) ([]string, string) {
	var r []string
	for _, e := range qs {
		s, ok := e.(*UnAckedStz)
		if !ok || s == nil {
			return nil, fmt.Sprintf("returned element %#v is not a *UnAckedStz", e)
		}
		r = append(r, s.Stz)
	}
	return r, ""
}

func vfEqStrs(a, b []string) bool {
	if len(a) != len(b) {
		return false
	}
	for i := range a {
		if a[i] != b[i] {
			return false
		}
	}
	return true
}

// vfRunQueueSeq executes ops on a fresh queue and the reference; returns "" or (key, message).
func vfRunQueueSeq(prefill int, ops []vfQOp) (key string, msg string) {
	defer func() {
		if p := recover(); p != nil {
			key, msg = "panic", fmt.Sprintf("panic: %v (ops so far in the witness)", p)
		}
	}()
	return vfRunQueueSeq2(prefill, ops)
}

func vfRunQueueSeq2(prefill int, ops []vfQOp) (string, string) {
	q := NewUnAckQueue()
	ref := &vfRefQ{}
	scratch := &UnAckedStz{}
	lastPushedId := 0
	var kept []vfKept
	step := func(i int, op vfQOp) (string, string) {
		before := append([]string(nil), ref.items...)
		switch op.Op {
		case "push":
			if err := q.Push(&UnAckedStz{Stz: op.Stz}); err != nil {
				return "push:error", fmt.Sprintf("step %d push returned %v", i, err)
			}
			ref.items = append(ref.items, op.Stz)
		case "push-reuse":
			// a caller that re-uses one scratch value for every push, and overwrites it afterwards:
			// what is queued is the value at the time of the push
			scratch.Stz = op.Stz
			scratch.Id = 0
			if err := q.Push(scratch); err != nil {
				return "push:error", fmt.Sprintf("step %d push returned %v", i, err)
			}
			ref.items = append(ref.items, op.Stz)
			scratch.Stz = "overwritten-after-push"
		case "push-held":
			// an entry obtained from the queue itself (the newest one, by PeekN) is handed to Push again: a FIFO holds
			// whatever is pushed, so it is queued a second time
			if len(ref.items) == 0 {
				break
			}
			all := q.PeekN(len(ref.items))
			if len(all) != len(ref.items) {
				return "peekn:wrong-elements", fmt.Sprintf("step %d peekn(len) returned %d entries, reference %d", i, len(all), len(ref.items))
			}
			tail, ok := all[len(all)-1].(*UnAckedStz)
			if !ok || tail == nil {
				return "peekn:type", fmt.Sprintf("step %d: tail is %#v", i, all[len(all)-1])
			}
			if err := q.Push(tail); err != nil {
				return "push:error", fmt.Sprintf("step %d push of a held entry returned %v", i, err)
			}
			ref.items = append(ref.items, ref.items[len(ref.items)-1])
		case "pop":
			got := q.Pop()
			if len(ref.items) == 0 {
				if got != nil {
					return "pop:nonempty-result-on-empty", fmt.Sprintf("step %d pop on empty returned %#v", i, got)
				}
			} else {
				s, ok := got.(*UnAckedStz)
				if !ok || s == nil || s.Stz != ref.items[0] {
					return "pop:wrong-element", fmt.Sprintf("step %d pop returned %#v, reference head %q", i, got, ref.items[0])
				}
				ref.items = ref.items[1:]
			}
		case "popn":
			res := q.PopN(op.K)
			got, bad := vfQueueablesToStrings(res)
			if bad != "" {
				return "popn:type", bad
			}
			if len(res) <= 40 {
				kept = append(kept, vfKept{i, "popn", res, got})
			}
			var want []string
			if op.K > 0 {
				n := op.K
				if n > len(ref.items) {
					n = len(ref.items)
				}
				want = append(want, ref.items[:n]...)
				ref.items = ref.items[n:]
			}
			if !vfEqStrs(got, want) {
				return "popn:wrong-elements", fmt.Sprintf("step %d popn(%d) returned %q, reference %q", i, op.K, got, want)
			}
		case "peek":
			got := q.Peek()
			if len(ref.items) == 0 {
				if got != nil {
					return "peek:nonempty-result-on-empty", fmt.Sprintf("step %d peek on empty returned %#v", i, got)
				}
			} else {
				s, ok := got.(*UnAckedStz)
				if !ok || s == nil || s.Stz != ref.items[0] {
					return "peek:wrong-element", fmt.Sprintf("step %d peek returned %#v, reference head %q", i, got, ref.items[0])
				}
			}
		case "peekn":
			res := q.PeekN(op.K)
			got, bad := vfQueueablesToStrings(res)
			if bad != "" {
				return "peekn:type", bad
			}
			if len(res) <= 40 {
				kept = append(kept, vfKept{i, "peekn", res, got})
			}
			var want []string
			if op.K > 0 {
				n := op.K
				if n > len(ref.items) {
					n = len(ref.items)
				}
				want = append(want, ref.items[:n]...)
			}
			if !vfEqStrs(got, want) {
				return "peekn:wrong-elements", fmt.Sprintf("step %d peekn(%d) returned %q, reference %q", i, op.K, got, want)
			}
		case "empty":
			if q.Empty() != (len(ref.items) == 0) {
				return "empty:wrong", fmt.Sprintf("step %d Empty()=%v, reference length %d", i, q.Empty(), len(ref.items))
			}
		}
		// what an earlier pop-n / peek-n returned is still what it returned (a caller may hold on to a result: the
		// retransmission code does, while it sends)
		if len(kept) > 4 {
			kept = kept[len(kept)-4:]
		}
		for _, k := range kept {
			now, bad := vfQueueablesToStrings(k.res)
			if bad != "" || !vfEqStrs(now, k.was) {
				return k.op + ":result-changed-by-later-call", fmt.Sprintf("step %d %s(%d): the slice returned by %s at step %d read %q then and reads %q now %s", i, op.Op, op.K, k.op, k.step, k.was, now, bad)
			}
		}
		// after every step: same contents, peeks did not modify, ids strictly increasing
		got := vfQContents(q)
		if !vfEqStrs(got, ref.items) {
			k := op.Op + ":contents-diverge"
			if op.Op == "peek" || op.Op == "peekn" || op.Op == "empty" {
				k = op.Op + ":modifies-queue"
			}
			return k, fmt.Sprintf("step %d %s(%d): queue %q, reference %q (before: %q)", i, op.Op, op.K, got, ref.items, before)
		}
		for j := 1; j < len(q.Uslice); j++ {
			if q.Uslice[j].Id <= q.Uslice[j-1].Id {
				return "ids:not-increasing", fmt.Sprintf("step %d: ids %d then %d at positions %d,%d", i, q.Uslice[j-1].Id, q.Uslice[j].Id, j-1, j)
			}
		}
		for j := 0; j < len(q.Uslice); j++ {
			if q.Uslice[j].Id <= 0 {
				return "ids:not-positive", fmt.Sprintf("step %d: id %d", i, q.Uslice[j].Id)
			}
		}
		// ... in insertion order over the whole history: an entry pushed later never carries a number that an
		// earlier entry (queued still, or popped long ago) already had or exceeded
		if (op.Op == "push" || op.Op == "push-reuse" || (op.Op == "push-held" && len(before) > 0)) && len(q.Uslice) > 0 {
			id := q.Uslice[len(q.Uslice)-1].Id
			if id <= lastPushedId {
				return "ids:not-increasing-in-insertion-order", fmt.Sprintf("step %d: the entry pushed now is numbered %d, an entry pushed earlier was numbered %d (queue before this push: %q)", i, id, lastPushedId, before)
			}
			lastPushedId = id
		}
		return "", ""
	}
	for i := 0; i < prefill; i++ {
		if k, m := step(-1, vfQOp{Op: "push", Stz: fmt.Sprintf("pre%d", i)}); k != "" {
			return k, m
		}
	}
	for i, op := range ops {
		if k, m := step(i, op); k != "" {
			return k, m
		}
	}
	return "", ""
}

// vfKept: a result of PopN/PeekN that the caller still holds, with what it contained when it was returned
type vfKept struct {
	step int
	op   string
	res  []Queueable
	was  []string
}

type vfC17Case struct {
	Prefill int     `json:"prefill"`
	Ops     []vfQOp `json:"ops"`
}

func TestVf_C17(t *testing.T) {
	run := vfkit.Open("C17", "random operation sequences over {push,pop,popn(k),peek,peekn(k),empty}, k in {negative,0,in range,len,>len}, "+
		"from empty and pre-filled queues, stepped against a slice FIFO; non-trivial = the sequence contains a pop/popn that removed "+
		"something and a peek, and the queue was emptied and refilled at least once; distinct by op-kind string")
	defer run.Close()
	var rc vfC17Case
	if run.ReplayCase(&rc) {
		k, m := vfRunQueueSeq(rc.Prefill, rc.Ops)
		t.Logf("replay: key=%q %s", k, m)
		if k != "" {
			run.Case(rc)
			run.Violation("C17/"+k, m, rc)
		}
		return
	}
	n := vfkit.Pick(20000, 2000000)
	r := vfkit.Rand(17)
	opnames := []string{"push", "push", "push-reuse", "push-held", "pop", "popn", "peek", "peekn", "empty"}
	for c := 0; c < n; c++ {
		ln := 1 + r.Intn(200)
		if c%4 == 0 {
			ln = 1 + r.Intn(12) // many short histories
		}
		cs := vfC17Case{Prefill: 0}
		if r.Intn(3) == 0 {
			cs.Prefill = r.Intn(12)
		}
		if c%200 == 7 {
			cs.Prefill = 200 + r.Intn(2000) // a long backlog (a session that was not acknowledged for a while)
		}
		size := cs.Prefill
		emptied, refilled, removed, peeked := false, false, false, false
		var sig strings.Builder
		for i := 0; i < ln; i++ {
			op := vfQOp{Op: opnames[r.Intn(len(opnames))]}
			switch op.Op {
			case "push-held":
				if size > 0 {
					size++
				}
			case "push", "push-reuse":
				op.Stz = fmt.Sprintf("s%d-%d", c, i)
				if emptied && size == 0 {
					refilled = true
				}
				size++
			case "pop":
				if size > 0 {
					size--
					removed = true
					if size == 0 {
						emptied = true
					}
				}
			case "popn", "peekn":
				switch r.Intn(7) {
				case 6:
					// "give me everything" idioms and the extreme ends of int
					op.K = []int{int(^uint(0) >> 1), int(^uint(0)>>1) / 2, -int(^uint(0)>>1) - 1, 1 << 31, 1 << 40}[r.Intn(5)]
				case 0:
					op.K = -1 - r.Intn(5)
				case 1:
					op.K = 0
				case 2:
					op.K = size
				case 3:
					op.K = size + 1 + r.Intn(4)
				default:
					if size > 0 {
						op.K = 1 + r.Intn(size)
					}
				}
				if op.Op == "popn" && op.K > 0 && size > 0 {
					k := op.K
					if k > size {
						k = size
					}
					size -= k
					removed = true
					if size == 0 {
						emptied = true
					}
				}
				if op.Op == "peekn" {
					peeked = true
				}
			case "peek":
				peeked = true
			}
			sig.WriteByte(op.Op[0])
			if op.Op == "popn" || op.Op == "peekn" {
				sig.WriteByte(op.Op[1])
				sig.WriteString(fmt.Sprint(op.K))
			}
			cs.Ops = append(cs.Ops, op)
		}
		if c%1000 == 0 {
			run.Case(cs)
		} else {
			run.CaseQuiet()
		}
		if c < 3 {
			run.Sample(cs)
		}
		if emptied && refilled && removed && peeked {
			run.Nontrivial(fmt.Sprintf("%d|%s", cs.Prefill, sig.String()))
			run.Count("emptied_and_refilled", 1)
		}
		run.Count("operations", int64(len(cs.Ops)))
		if k, m := vfRunQueueSeq(cs.Prefill, cs.Ops); k != "" {
			run.Violation("C17/"+k, m, cs)
		}
	}
	if run.NViolations() > 0 {
		t.Fail()
	}
}

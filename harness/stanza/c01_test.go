package stanza

// C01 — stanza encode/decode round trip preserves every field; text never injects XML.

import (
	"bytes"
	"encoding/xml"
	"fmt"
	"reflect"
	"strings"
	"sync"
	"sync/atomic"
	"testing"

	"vfkit"
)

type vfTop struct {
	name      string
	typ       reflect.Type
	viaStream string // stream default namespace for the NextPacket path, "" = xml.Unmarshal only
}

var vfTops = []vfTop{
	{"Message", reflect.TypeOf(Message{}), NSClient},
	{"Presence", reflect.TypeOf(Presence{}), NSClient},
	{"IQ", reflect.TypeOf(IQ{}), NSClient},
	{"SMEnable", reflect.TypeOf(SMEnable{}), ""},
	{"SMEnabled", reflect.TypeOf(SMEnabled{}), NSClient},
	{"SMRequest", reflect.TypeOf(SMRequest{}), NSClient},
	{"SMAnswer", reflect.TypeOf(SMAnswer{}), NSClient},
	{"SMResume", reflect.TypeOf(SMResume{}), NSClient},
	{"SMResumed", reflect.TypeOf(SMResumed{}), NSClient},
	{"SMFailed", reflect.TypeOf(SMFailed{}), NSClient},
	{"SASLAuth", reflect.TypeOf(SASLAuth{}), ""},
	{"Handshake", reflect.TypeOf(Handshake{}), NSComponent},
}

type vfC01Witness struct {
	Top    string   `json:"top"`
	Mode   string   `json:"mode"` // focus | random | ext-single | ext-pair
	Seed   int64    `json:"seed"`
	Path   []string `json:"path,omitempty"`
	Ext    []int    `json:"ext,omitempty"`
	First  string   `json:"first,omitempty"` // crosskind: which stanza kind is decoded first (iq | ext)
	XML    string   `json:"xml,omitempty"`
	XML2   string   `json:"xml2,omitempty"`
	Detail string   `json:"detail,omitempty"`
	Where  string   `json:"where,omitempty"`
}

func vfMarshalSafe(v interface{}) (b []byte, err error) {
	defer func() {
		if p := recover(); p != nil {
			err = fmt.Errorf("panic in Marshal: %v", p)
		}
	}()
	return xml.Marshal(v)
}

func vfUnmarshalSafe(b []byte, v interface{}) (err error) {
	defer func() {
		if p := recover(); p != nil {
			err = fmt.Errorf("panic in Unmarshal: %v", p)
		}
	}()
	return xml.Unmarshal(b, v)
}

func vfNextPacketSafe(hdr string, b []byte) (p Packet, err error) {
	defer func() {
		if pp := recover(); pp != nil {
			err = fmt.Errorf("panic in NextPacket: %v", pp)
		}
	}()
	d := xml.NewDecoder(strings.NewReader(hdr + string(b)))
	if _, err = InitStream(d); err != nil {
		return nil, err
	}
	return NextPacket(d)
}

func vfErrClass(err error) string {
	s := err.Error()
	if i := strings.Index(s, ":"); i > 0 && i < 40 {
		s = s[:i]
	}
	s = strings.Map(func(r rune) rune {
		if r >= '0' && r <= '9' {
			return -1
		}
		return r
	}, s)
	if len(s) > 40 {
		s = s[:40]
	}
	return strings.TrimSpace(s)
}

// vfC01Check builds the value twice (hostile text / placeholders, same structure) and runs the oracles.
func vfC01Check(run *vfkit.Run, top vfTop, w vfC01Witness, build func(g *vfGen) reflect.Value) {
	g := newVfGen(w.Seed, false)
	v := build(g)
	pv := reflect.New(top.typ)
	pv.Elem().Set(v)
	b1, err := vfMarshalSafe(pv.Interface())
	w.XML = string(b1)
	if err != nil {
		w.Detail = err.Error()
		run.Violation("C01/"+top.name+"|marshal-error:"+vfErrClass(err), "a value built from the library's types cannot be serialized: "+err.Error(), w)
		return
	}
	run.Count("values_marshalled", 1)
	// parse back with xml.Unmarshal
	p2 := reflect.New(top.typ)
	if err := vfUnmarshalSafe(b1, p2.Interface()); err != nil {
		w.Detail = err.Error()
		run.Violation("C01/"+top.name+"|parse-error:"+vfErrClass(err), "serialized value does not parse back: "+err.Error()+" — "+string(b1), w)
		return
	}
	var c vfCmp
	eqOK := c.eq(pv.Elem(), p2.Elem(), top.name, top.name)
	if !eqOK {
		seen := map[string]bool{}
		for _, d := range c.diffs {
			if seen[d.loc] {
				continue
			}
			seen[d.loc] = true
			w.Detail, w.Where = d.detail, d.path
			run.Violation("C01/"+d.loc+":eq", fmt.Sprintf("%s: %s — xml: %s", d.path, d.detail, vfClip(string(b1), 400)), w)
		}
	} else {
		run.Count("roundtrip_equal", 1)
		b2, err := vfMarshalSafe(p2.Interface())
		if err != nil {
			w.Detail = err.Error()
			run.Violation("C01/"+top.name+"|remarshal-error", err.Error(), w)
		} else if !bytes.Equal(b1, b2) {
			w.XML2 = string(b2)
			where := vfFirstTokenDiff(b1, b2)
			run.Violation("C01/"+top.name+"|"+where+":fixpoint", fmt.Sprintf("re-serialized bytes differ at %s: %s  vs  %s", where, vfClip(string(b1), 300), vfClip(string(b2), 300)), w)
		} else {
			run.Count("fixpoint_equal", 1)
		}
	}
	// the same bytes inside a stream, through NextPacket
	streams := []string{top.viaStream}
	if top.viaStream == NSClient && (top.name == "Message" || top.name == "Presence" || top.name == "IQ") {
		streams = append(streams, NSComponent) // the same stanzas travel on component streams
	}
	for _, streamNS := range streams {
		if streamNS == "" || !eqOK {
			continue
		}
		hdr := `<stream:stream xmlns="` + streamNS + `" xmlns:stream="` + NSStream + `">`
		pkt, err := vfNextPacketSafe(hdr, b1)
		if err != nil {
			w.Detail = err.Error()
			run.Violation("C01/"+top.name+"|nextpacket-error:"+vfErrClass(err), "NextPacket fails on the serialized value: "+err.Error()+" — "+vfClip(string(b1), 300), w)
		} else {
			var c2 vfCmp
			if !c2.eq(pv.Elem(), vfDeref(reflect.ValueOf(pkt)), top.name, top.name) {
				d := c2.diffs[0]
				w.Detail, w.Where = d.detail, d.path
				run.Violation("C01/"+d.loc+":eq-nextpacket", fmt.Sprintf("%s: %s — xml: %s", d.path, d.detail, vfClip(string(b1), 400)), w)
			} else {
				run.Count("nextpacket_equal", 1)
			}
		}
	}
	// injection oracle: same structure with placeholders instead of hostile text
	g0 := newVfGen(w.Seed, true)
	v0 := build(g0)
	pv0 := reflect.New(top.typ)
	pv0.Elem().Set(v0)
	b0, err := vfMarshalSafe(pv0.Interface())
	if err != nil {
		return
	}
	sk1, e1 := vfSkeleton(b1)
	sk0, e0 := vfSkeleton(b0)
	if e1 != nil || e0 != nil {
		w.Detail = fmt.Sprint(e1, e0)
		run.Violation("C01/"+top.name+"|output-not-wellformed", fmt.Sprintf("serialized output is not well-formed XML: %v %v — %s", e1, e0, vfClip(string(b1), 300)), w)
		return
	}
	if msg := vfSkeletonDiff(sk0, sk1, g0.orig); msg != "" {
		w.Detail = msg
		w.XML2 = string(b0)
		run.Violation("C01/"+top.name+"|structure-changed-by-text", msg+" — "+vfClip(string(b1), 300), w)
		return
	}
	run.Count("skeleton_equal", 1)
	run.Count("hostile_strings_placed", int64(len(g0.orig)))
	if len(g0.orig) > 0 && eqOK {
		run.Nontrivial(string(b1))
	}
}

func vfClip(s string, n int) string {
	if len(s) > n {
		return s[:n] + "…"
	}
	return s
}

func vfFirstTokenDiff(b1, b2 []byte) string {
	s1, _ := vfSkeleton(b1)
	s2, _ := vfSkeleton(b2)
	stack := []string{}
	for i := 0; i < len(s1) && i < len(s2); i++ {
		if !reflect.DeepEqual(s1[i], s2[i]) {
			cur := "?"
			if s1[i].Kind == "S" {
				cur = s1[i].Name
			} else if len(stack) > 0 {
				cur = stack[len(stack)-1]
			}
			return "<" + strings.TrimPrefix(cur, ":") + ">"
		}
		if s1[i].Kind == "S" {
			stack = append(stack, s1[i].Name)
		} else if s1[i].Kind == "E" && len(stack) > 0 {
			stack = stack[:len(stack)-1]
		}
	}
	return "<length>"
}

func vfSkeletonDiff(plain, hostile []vfTok, orig []string) string {
	want := func(p string) (string, bool) {
		var i int
		if n, _ := fmt.Sscanf(p, "T%dT", &i); n == 1 && fmt.Sprintf("T%dT", i) == p && i < len(orig) {
			return orig[i], true
		}
		return p, false
	}
	// hostile text may legitimately be split around nothing; tokens were coalesced already.
	i, j := 0, 0
	for i < len(plain) && j < len(hostile) {
		a, b := plain[i], hostile[j]
		if a.Kind != b.Kind || a.Name != b.Name || len(a.Attrs) != len(b.Attrs) {
			return fmt.Sprintf("token %d: placeholder output has %s %q, hostile output has %s %q", i, a.Kind, a.Name+a.Text, b.Kind, b.Name+b.Text)
		}
		for k := range a.Attrs {
			if a.Attrs[k][0] != b.Attrs[k][0] {
				return fmt.Sprintf("token %d <%s>: attribute %q became %q", i, a.Name, a.Attrs[k][0], b.Attrs[k][0])
			}
			w, _ := want(a.Attrs[k][1])
			if w != b.Attrs[k][1] {
				return fmt.Sprintf("token %d <%s %s>: attribute value %q, expected exactly %q", i, a.Name, a.Attrs[k][0], b.Attrs[k][1], w)
			}
		}
		if a.Kind == "T" || a.Kind == "C" || a.Kind == "P" || a.Kind == "D" {
			w, _ := want(a.Text)
			if w != b.Text {
				return fmt.Sprintf("token %d: text %q, expected exactly %q", i, b.Text, w)
			}
		}
		i++
		j++
	}
	if i != len(plain) || j != len(hostile) {
		return fmt.Sprintf("token count differs: %d with placeholders, %d with hostile text", len(plain), len(hostile))
	}
	return ""
}

func TestVf_C01(t *testing.T) {
	run := vfkit.Open("C01", "reflective generator over Message/Presence/IQ/SM*/SASLAuth/Handshake: (1) single-path probes, one per field path to struct depth 6, "+
		"interfaces filled from the registry and the closed alternative tables; (2) every registered message/presence extension alone and every ordered pair; "+
		"(3) random combinations with hostile text (XML-legal characters incl. < > & quotes ]]> whitespace non-ASCII). Oracles: parsed value == original (normalising comparison), "+
		"byte fix-point, NextPacket in a stream gives the same value, and the element skeleton is identical to the one obtained with placeholders instead of the text. "+
		"non-trivial = distinct serialization that contained hostile text and round-tripped")
	defer run.Close()
	defer func() {
		run.Count("nodes_named_like_another_kinds_extension", atomic.LoadInt64(&vfForeignKindUsed))
		run.Count("other_kind_extension_names", int64(len(vfForeignKindNames())))
	}()

	var rw vfC01Witness
	if run.ReplayCase(&rw) {
		if rw.Mode == "crosskind" {
			run.Case(rw)
			vfC01CrossKind(run, rw)
			return
		}
		for _, top := range vfTops {
			if top.name == rw.Top {
				run.Case(rw)
				vfC01Check(run, top, rw, vfC01Builder(top, rw))
			}
		}
		return
	}

	// (0) cross-kind sequences, before anything else has been decoded in this process: an element name under which
	// an extension is registered for one stanza kind, first seen as a generic node inside an IQ and then as the
	// extension itself - and the other way round, after a registration (which any application may do at any time)
	for _, tn := range []string{"Message", "Presence"} {
		alts := vfAlternatives(vfExtIf(tn), tn, "Extensions")
		for i := range alts {
			for _, first := range []string{"iq", "ext"} {
				w := vfC01Witness{Top: tn, Mode: "crosskind", Seed: vfkit.Seed()*15485863 + int64(i), Ext: []int{i}, First: first}
				run.Case(w)
				vfC01CrossKind(run, w)
			}
		}
	}

	// (1) single-path probes
	nprobe := 0
	for ti, top := range vfTops {
		paths := vfEnumPaths(top.typ, "", "", 0)
		run.Count("field_paths_"+top.name, int64(len(paths)))
		for pi, path := range paths {
			for rep := 0; rep < vfkit.Pick(2, 8); rep++ {
				w := vfC01Witness{Top: top.name, Mode: "focus", Seed: vfkit.Seed()*1000003 + int64(ti)*100003 + int64(pi)*101 + int64(rep), Path: path}
				run.Case(w)
				vfC01Check(run, top, w, vfC01Builder(top, w))
				nprobe++
			}
		}
	}
	run.Count("single_path_probes", int64(nprobe))

	// (2) extensions: singles and ordered pairs
	for _, tn := range []string{"Message", "Presence"} {
		top := vfTops[0]
		if tn == "Presence" {
			top = vfTops[1]
		}
		alts := vfAlternatives(vfExtIf(tn), tn, "Extensions")
		run.Count("registered_extensions_"+tn, int64(len(alts)))
		for i := range alts {
			w := vfC01Witness{Top: tn, Mode: "ext", Seed: vfkit.Seed()*7919 + int64(i), Ext: []int{i}}
			run.Case(w)
			vfC01Check(run, top, w, vfC01Builder(top, w))
			for j := range alts {
				w := vfC01Witness{Top: tn, Mode: "ext", Seed: vfkit.Seed()*7919 + int64(i*1000+j), Ext: []int{i, j}}
				run.Case(w)
				vfC01Check(run, top, w, vfC01Builder(top, w))
				run.Count("extension_pairs", 1)
			}
		}
	}

	// (3) random combinations, 16 workers; case list is a pure function of the seed
	n := vfkit.Pick(5000, 200000)
	var wg sync.WaitGroup
	workers := 16
	for wk := 0; wk < workers; wk++ {
		wg.Add(1)
		go func(wk int) {
			defer wg.Done()
			for c := wk; c < n; c += workers {
				ti := c % 16
				if ti >= len(vfTops) {
					ti = ti % 3 // weight message / presence / iq
				}
				top := vfTops[ti]
				w := vfC01Witness{Top: top.name, Mode: "random", Seed: vfkit.Seed()*104729 + int64(c)}
				if c%500 == 0 {
					run.Case(w)
				} else {
					run.CaseQuiet()
				}
				vfC01Check(run, top, w, vfC01Builder(top, w))
				if c < 3 {
					g := newVfGen(w.Seed, false)
					pv := reflect.New(top.typ)
					pv.Elem().Set(vfC01Builder(top, w)(g))
					b, _ := vfMarshalSafe(pv.Interface())
					run.Sample(map[string]interface{}{"top": top.name, "seed": w.Seed, "xml": vfClip(string(b), 1200)})
				}
			}
		}(wk)
	}
	wg.Wait()
	if run.NViolations() > 0 {
		t.Fail()
	}
}

var vfLateRegistrations int64

// vfC01CrossKind: one registered message/presence extension and an IQ whose generic child carries the same element
// name, decoded one after the other in the order w.First says, right after a fresh registration.
func vfC01CrossKind(run *vfkit.Run, w vfC01Witness) {
	top := vfTops[0]
	if w.Top == "Presence" {
		top = vfTops[1]
	}
	n := atomic.AddInt64(&vfLateRegistrations, 1)
	TypeRegistry.MapExtension(PKTMessage, xml.Name{Space: "urn:vf:late", Local: fmt.Sprintf("late%d", n)}, vfExtExact{})
	extW := vfC01Witness{Top: w.Top, Mode: "ext", Seed: w.Seed, Ext: w.Ext}
	// the element names the extension is serialized under
	g := newVfGen(extW.Seed, false)
	pv := reflect.New(top.typ)
	pv.Elem().Set(vfC01Builder(top, extW)(g))
	b, err := vfMarshalSafe(pv.Interface())
	if err != nil {
		return // reported by the ordinary extension phase
	}
	var names []xml.Name
	d := xml.NewDecoder(bytes.NewReader(b))
	depth := 0
	for {
		tok, err := d.Token()
		if err != nil {
			break
		}
		switch tt := tok.(type) {
		case xml.StartElement:
			depth++
			if depth == 2 {
				names = append(names, tt.Name)
			}
		case xml.EndElement:
			depth--
		}
	}
	extStep := func() { vfC01Check(run, top, extW, vfC01Builder(top, extW)) }
	iqStep := func() {
		for k, name := range names {
			if TypeRegistry.GetExtensionType(PKTIQ, name) != nil {
				continue // registered for IQs as well: not a generic node there
			}
			iq := IQ{Attrs: Attrs{Id: fmt.Sprintf("ck-%d-%d", w.Seed, k), Type: IQTypeGet}, Any: &Node{XMLName: name, Content: "vf"}}
			iw := w
			iw.Detail = "iq step: generic child " + name.Space + " " + name.Local
			vfC01Check(run, vfTops[2], iw, func(*vfGen) reflect.Value { return reflect.ValueOf(iq) })
			run.Count("crosskind_iq_steps", 1)
		}
	}
	if w.First == "iq" {
		iqStep()
		extStep()
	} else {
		extStep()
		iqStep()
	}
	run.Count("crosskind_sequences", 1)
}

func vfC01Builder(top vfTop, w vfC01Witness) func(g *vfGen) reflect.Value {
	switch w.Mode {
	case "focus":
		return func(g *vfGen) reflect.Value { return g.focus(top.typ, "", "", w.Path) }
	case "ext":
		return func(g *vfGen) reflect.Value {
			alts := vfAlternatives(vfExtIf(top.name), top.name, "Extensions")
			v := reflect.New(top.typ).Elem()
			f := v.FieldByName("Extensions")
			s := reflect.MakeSlice(f.Type(), 0, 2)
			for _, i := range w.Ext {
				if i < len(alts) {
					e := reflect.New(f.Type().Elem()).Elem()
					e.Set(g.random2(alts[i], 1))
					s = reflect.Append(s, e)
				}
			}
			f.Set(s)
			// random addressing
			v.FieldByName("Attrs").Set(g.random(reflect.TypeOf(Attrs{}), top.name, "Attrs", 1))
			return v
		}
	default:
		return func(g *vfGen) reflect.Value { return g.random(top.typ, "", "", 0) }
	}
}

func vfExtIf(top string) reflect.Type {
	if top == "Presence" {
		return vfIfPresExt
	}
	return vfIfMsgExt
}

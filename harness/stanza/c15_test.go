package stanza

// C15 — JID parsing and formatting are consistent and reject malformed addresses.
// Reference splitter + format/parse round trip over generated triples and arbitrary strings.

import (
	"fmt"
	"math/rand"
	"strings"
	"testing"
	"unicode"
	"unicode/utf8"

	"vfkit"
)

// character classes
var vfJidAccepted = []string{"a", "b", "z", "A", "Q", "0", "9", ".", "-", "_", "+", "=", "~", "!", "é", "ß", "中", "Ж", "\U0001F600", "xn--", "example", "com", "node"}
var vfJidSpaces = []string{" ", "\t", "\n", "\r", " ", " ", "　", "\u0085", " "}
var vfJidForbiddenLocal = []string{"'", "\"", ":", "<", ">"}         // '@' and '/' are structural
var vfJidSilent = []string{"&", "\\", "%", "#", "\x00", "\x7f", "​"} // neither statement nor code lists speak: no accept/reject assertion

type vfJidVerdict int

const (
	vfJidMustAccept vfJidVerdict = iota
	vfJidMustReject
	vfJidNoOpinion // parts asserted only if accepted
	vfJidSkip      // '/' before the first '@'
)

// vfRefJid is the reference splitter: the statement turned into code.
func vfRefJid(s string) (local, domain, resource string, v vfJidVerdict, why string) {
	if s == "" {
		return "", "", "", vfJidMustReject, "empty string"
	}
	at := strings.Index(s, "@")
	slash := strings.Index(s, "/")
	if at >= 0 && slash >= 0 && slash < at {
		return "", "", "", vfJidSkip, ""
	}
	rest := s
	hasLocal := false
	if at >= 0 {
		local = s[:at]
		rest = s[at+1:]
		hasLocal = true
	}
	if i := strings.Index(rest, "/"); i >= 0 {
		domain = rest[:i]
		resource = rest[i+1:]
	} else {
		domain = rest
	}
	if hasLocal && local == "" {
		return local, domain, resource, vfJidMustReject, "empty local part before '@'"
	}
	if domain == "" {
		return local, domain, resource, vfJidMustReject, "empty domain"
	}
	v = vfJidMustAccept
	check := func(part string, forbidden string, what string) {
		for _, c := range part {
			if unicode.IsSpace(c) {
				v, why = vfJidMustReject, "whitespace in "+what
				return
			}
			if strings.ContainsRune(forbidden, c) {
				v, why = vfJidMustReject, fmt.Sprintf("forbidden %q in %s", c, what)
				return
			}
		}
		if v == vfJidMustAccept {
			for _, c := range part {
				ok := unicode.IsLetter(c) || unicode.IsDigit(c) || strings.ContainsRune(".-_+=~!", c) || c > 0xFFFF
				if !ok {
					v = vfJidNoOpinion
				}
			}
		}
	}
	check(local, "@/'\":<>", "local part")
	if v != vfJidMustReject {
		check(domain, "@/", "domain")
	}
	return
}

func vfJidPart(r *rand.Rand, kind int) string {
	n := 1 + r.Intn(4)
	var sb strings.Builder
	for i := 0; i < n; i++ {
		sb.WriteString(vfJidAccepted[r.Intn(len(vfJidAccepted))])
	}
	s := sb.String()
	ins := func(set []string) string {
		x := set[r.Intn(len(set))]
		rs := []rune(s)
		p := r.Intn(len(rs) + 1)
		return string(rs[:p]) + x + string(rs[p:])
	}
	switch kind {
	case 1:
		return ins(vfJidSpaces)
	case 2:
		return ins(vfJidForbiddenLocal)
	case 3:
		return ins(vfJidSilent)
	case 4:
		return ins([]string{"@"})
	case 5:
		return ins([]string{"/"})
	}
	return s
}

func vfJidCheck(run *vfkit.Run, s string) {
	defer func() {
		if p := recover(); p != nil {
			run.Violation("C15/panic", fmt.Sprintf("NewJid(%q) panicked: %v", s, p), s)
		}
	}()
	wl, wd, wr, verdict, why := vfRefJid(s)
	if verdict == vfJidSkip {
		run.Count("skipped_slash_before_at", 1)
		// totality only
		NewJid(s)
		return
	}
	j, err := NewJid(s)
	switch verdict {
	case vfJidMustReject:
		run.Count("must_reject", 1)
		if err == nil {
			cls := strings.Fields(why)[0]
			run.Violation("C15/accepts-malformed:"+cls, fmt.Sprintf("NewJid(%q) accepted although %s; got %+v", s, why, j), s)
		}
		return
	case vfJidMustAccept:
		run.Count("must_accept", 1)
		if err != nil {
			run.Violation("C15/rejects-wellformed", fmt.Sprintf("NewJid(%q) = error %v; expected (%q,%q,%q)", s, err, wl, wd, wr), s)
			return
		}
	case vfJidNoOpinion:
		run.Count("no_opinion", 1)
		if err != nil {
			return
		}
	}
	if j == nil {
		run.Violation("C15/nil-jid", fmt.Sprintf("NewJid(%q) returned nil, nil", s), s)
		return
	}
	if j.Node != wl || j.Domain != wd || j.Resource != wr {
		k := "C15/parts"
		if strings.ContainsAny(wr, "/@") {
			k = "C15/parts:resource-with-separator"
		}
		run.Violation(k, fmt.Sprintf("NewJid(%q) = (%q,%q,%q); reference (%q,%q,%q)", s, j.Node, j.Domain, j.Resource, wl, wd, wr), s)
		return
	}
	// round trip
	shape := "local"
	if j.Node == "" {
		shape = "domain"
	}
	if j.Resource != "" {
		shape += "+resource"
	}
	run.Count("roundtrip_"+shape, 1)
	full := j.Full()
	j2, err2 := NewJid(full)
	if err2 != nil || j2 == nil || *j2 != *j {
		run.Violation("C15/full-roundtrip:"+shape, fmt.Sprintf("NewJid(%q).Full() = %q which parses to %+v, %v; want %+v", s, full, j2, err2, *j), s)
	}
	bare := j.Bare()
	j3, err3 := NewJid(bare)
	want := Jid{Node: j.Node, Domain: j.Domain}
	if err3 != nil || j3 == nil || *j3 != want {
		run.Violation("C15/bare-roundtrip:"+shape, fmt.Sprintf("NewJid(%q).Bare() = %q which parses to %+v, %v; want %+v", s, bare, j3, err3, want), s)
	}
	run.Nontrivial(s)
}

func TestVf_C15(t *testing.T) {
	run := vfkit.Open("C15", "strings assembled from (local, domain, resource) triples over accepted / whitespace / forbidden / unlisted character classes, "+
		"plus mutated and arbitrary strings; reference splitter decides parts and must-accept / must-reject; accepted JIDs are rendered with Full()/Bare() and re-parsed; "+
		"non-trivial = distinct input string that was accepted and round-tripped")
	defer run.Close()
	var rs string
	if run.ReplayCase(&rs) {
		run.Case(rs)
		vfJidCheck(run, rs)
		return
	}
	r := vfkit.Rand(15)
	n := vfkit.Pick(50000, 5000000)
	// fixed corner list first
	corners := []string{"", "@", "/", "@/", "a@", "@b", "a@/r", "a@b/", "b/", "a@b", "b", "b/r", "b/r/s", "b/r@s", "a@b/r/s@t", "a@b@c", "a@b/r@c",
		" a@b", "a @b", "a@ b", "a@b /r", "a@b/ r ", "a:b@c", "a'b@c", "a\"b@c", "a<b@c", "a>b@c", "a@b:5222", "a&b@c", "example.com/res", "example.com/a b",
		"a@b//", "a@b/@", "b/@", "\t", "a b@c", "é@ß/中", "a@b/\U0001F600"}
	for _, s := range corners {
		run.Case(s)
		vfJidCheck(run, s)
	}
	for c := 0; c < n; c++ {
		var s string
		switch r.Intn(10) {
		case 0: // arbitrary string over the structural alphabet
			m := r.Intn(10)
			al := []string{"@", "/", "a", "b", " ", ":", "é", "'", "."}
			var sb strings.Builder
			for i := 0; i < m; i++ {
				sb.WriteString(al[r.Intn(len(al))])
			}
			s = sb.String()
		case 1:
			s = vfkit.Text(r, 12, true)
		default:
			lk, dk := 0, 0
			if r.Intn(3) == 0 {
				lk = r.Intn(6)
			}
			if r.Intn(3) == 0 {
				dk = r.Intn(6)
			}
			local := vfJidPart(r, lk)
			domain := vfJidPart(r, dk)
			hasLocal := r.Intn(3) != 0
			hasRes := r.Intn(2) == 0
			if r.Intn(25) == 0 {
				local = ""
			}
			if r.Intn(25) == 0 {
				domain = ""
			}
			if hasLocal {
				s = local + "@"
			}
			s += domain
			if hasRes {
				res := vfkit.Text(r, 8, true)
				if r.Intn(3) == 0 {
					res = vfJidPart(r, r.Intn(6))
				}
				s += "/" + res
			}
		}
		if c%5000 == 0 {
			run.Case(s)
		} else {
			run.CaseQuiet()
		}
		if c < 4 {
			run.Sample(s)
		}
		vfJidCheck(run, s)
		// a close relative of the string just parsed, right after it (anything remembered from one call - a cache
		// keyed by a normalised form, a reused buffer - shows when two different strings meet), and the same
		// string once more
		if c%4 == 0 && len(s) > 0 {
			v := s
			switch r.Intn(6) {
			case 0:
				v = s + " "
			case 1:
				v = " " + s
			case 2:
				v = strings.ToUpper(s)
			case 3:
				v = s[:len(s)-1]
			case 4:
				v = s + "/x"
			case 5:
				v = strings.Replace(s, "@", "@@", 1)
			}
			if utf8.ValidString(v) == utf8.ValidString(s) {
				run.CaseQuiet()
				vfJidCheck(run, v)
			}
			run.CaseQuiet()
			vfJidCheck(run, s)
			run.Count("related_strings_parsed_in_sequence", 1)
		}
	}
	if run.NViolations() > 0 {
		t.Fail()
	}
}

package xmpp

package xmpp

// Client-side instruments: observed client construction, transport tap, goroutine probe, test PKI.

import (
	"crypto/ecdsa"
	"crypto/elliptic"
	crand "crypto/rand"
	"crypto/tls"
	"crypto/x509"
	"crypto/x509/pkix"
	"encoding/xml"
	"fmt"
	"io"
	"math/big"
	"net"
	"regexp"
	"runtime"
	"strings"
	"sync"
	"sync/atomic"
	"time"

	"gosrc.io/xmpp/stanza"
)

// ---------------------------------------------------------------------------------------------
// observed client

type vfEvent struct {
	State uint8  `json:"state"`
	SMId  string `json:"smid,omitempty"`
	Desc  string `json:"desc,omitempty"`
	SErr  string `json:"streamerror,omitempty"`
	Seq   int64  `json:"seq"`
	// Inbound: the handled-stanza count carried by the event's stream-management state
	Inbound uint `json:"inbound,omitempty"`
}

type vfObs struct {
	mu           sync.Mutex
	events       []vfEvent
	errors       []string
	errSeq       []int64
	handled      []string // ids of routed stanzas, in handler-entry order
	kinds        []string
	handlerDelay func(id string)
}

func (o *vfObs) onEvent(e Event) error {
	o.mu.Lock()
	o.events = append(o.events, vfEvent{State: e.State.state, SMId: e.SMState.Id, Desc: e.Description, SErr: e.StreamError, Seq: vfTick(), Inbound: e.SMState.Inbound})
	o.mu.Unlock()
	return nil
}

// reset forgets what was observed so far (a case that judges a later connection only).
func (o *vfObs) reset() {
	o.mu.Lock()
	o.events, o.errors, o.errSeq, o.handled, o.kinds = nil, nil, nil, nil, nil
	o.mu.Unlock()
}

func (o *vfObs) onError(err error) {
	o.mu.Lock()
	o.errors = append(o.errors, err.Error())
	o.errSeq = append(o.errSeq, vfTick())
	o.mu.Unlock()
}

func (o *vfObs) Events() []vfEvent {
	o.mu.Lock()
	defer o.mu.Unlock()
	return append([]vfEvent(nil), o.events...)
}

func (o *vfObs) Errors() []string {
	o.mu.Lock()
	defer o.mu.Unlock()
	return append([]string(nil), o.errors...)
}

func (o *vfObs) Handled() []string {
	o.mu.Lock()
	defer o.mu.Unlock()
	return append([]string(nil), o.handled...)
}

func (o *vfObs) CountState(st uint8) int {
	n := 0
	for _, e := range o.Events() {
		if e.State == st {
			n++
		}
	}
	return n
}

func vfPacketId(p stanza.Packet) (kind, id string) {
	switch v := p.(type) {
	case stanza.Message:
		return "message", v.Id
	case stanza.Presence:
		return "presence", v.Id
	case *stanza.IQ:
		return "iq", v.Id
	}
	return p.Name(), ""
}

// countKind: how many routed packets of that kind (stanza name, or Packet.Name() for non-stanzas) the catch-all has seen
func (o *vfObs) countKind(kind string) int {
	o.mu.Lock()
	defer o.mu.Unlock()
	n := 0
	for _, k := range o.kinds {
		if k == kind {
			n++
		}
	}
	return n
}

// catchAll registers a route without matchers that records every routed packet.
func (o *vfObs) catchAll(r *Router) {
	r.NewRoute().HandlerFunc(func(s Sender, p stanza.Packet) {
		kind, id := vfPacketId(p)
		o.mu.Lock()
		o.handled = append(o.handled, id)
		o.kinds = append(o.kinds, kind)
		d := o.handlerDelay
		o.mu.Unlock()
		if d != nil {
			d(id)
		}
	})
}

type vfClientOpt struct {
	Addr      string
	Jid       string
	Password  string
	Insecure  bool
	SM        bool
	SMResume  bool
	TLSConfig *tls.Config
	Keepalive time.Duration
	Timeout   int
	Domain    string
	Cred      *Credential
}

func vfNewClient(o vfClientOpt, r *Router) (*Client, *vfObs, error) {
	if o.Jid == "" {
		o.Jid = "test@localhost/vf"
	}
	if o.Password == "" {
		o.Password = "secret"
	}
	if o.Timeout == 0 {
		o.Timeout = 1
	}
	if o.Keepalive == 0 {
		o.Keepalive = time.Hour
	}
	cred := Password(o.Password)
	if o.Cred != nil {
		cred = *o.Cred
	}
	cfg := &Config{
		TransportConfiguration: TransportConfiguration{Address: o.Addr, TLSConfig: o.TLSConfig, Domain: o.Domain},
		Jid:                    o.Jid,
		Credential:             cred,
		Insecure:               o.Insecure,
		ConnectTimeout:         o.Timeout,
		KeepaliveInterval:      o.Keepalive,
		StreamManagementEnable: o.SM,
		streamManagementResume: o.SMResume,
	}
	obs := &vfObs{}
	if r == nil {
		r = NewRouter()
	}
	c, err := NewClient(cfg, r, obs.onError)
	if err != nil {
		return nil, obs, err
	}
	c.SetHandler(obs.onEvent)
	return c, obs, nil
}

// ---------------------------------------------------------------------------------------------
// transport tap: wraps the client's Transport at the public interface

type vfTap struct {
	inner Transport
	mu    sync.Mutex
	// hooks (may be nil); called outside the mutex
	BeforeWrite func(p []byte) error // returning an error fails the write without touching the socket
	AfterWrite  func(p []byte, n int, err error)
	BeforePing  func() error
	OnClose     func()
	writes      int64
	pings       int64
	closes      int64
}

func (t *vfTap) Connect() (string, error)     { return t.inner.Connect() }
func (t *vfTap) DoesStartTLS() bool           { return t.inner.DoesStartTLS() }
func (t *vfTap) StartTLS() error              { return t.inner.StartTLS() }
func (t *vfTap) LogTraffic(w io.Writer)       { t.inner.LogTraffic(w) }
func (t *vfTap) StartStream() (string, error) { return t.inner.StartStream() }
func (t *vfTap) GetDecoder() *xml.Decoder     { return t.inner.GetDecoder() }
func (t *vfTap) IsSecure() bool               { return t.inner.IsSecure() }
func (t *vfTap) Read(p []byte) (int, error)   { return t.inner.Read(p) }
func (t *vfTap) ReceivedStreamClose()         { t.inner.ReceivedStreamClose() }
func (t *vfTap) Ping() error {
	atomic.AddInt64(&t.pings, 1)
	if t.BeforePing != nil {
		if err := t.BeforePing(); err != nil {
			return err
		}
	}
	return t.inner.Ping()
}
func (t *vfTap) Write(p []byte) (int, error) {
	atomic.AddInt64(&t.writes, 1)
	if t.BeforeWrite != nil {
		if err := t.BeforeWrite(p); err != nil {
			return 0, err
		}
	}
	n, err := t.inner.Write(p)
	if t.AfterWrite != nil {
		t.AfterWrite(p, n, err)
	}
	return n, err
}
func (t *vfTap) Close() error {
	atomic.AddInt64(&t.closes, 1)
	if t.OnClose != nil {
		t.OnClose()
	}
	return t.inner.Close()
}

// vfInstallTap must be called before Connect (no library goroutine exists yet).
func vfInstallTap(c *Client) *vfTap {
	t := &vfTap{inner: c.transport}
	c.transport = t
	return t
}

// ---------------------------------------------------------------------------------------------
// goroutine probe (DESIGN 3.3)

type vfGoroutine struct {
	ID     string
	State  string
	Frames []string
	Text   string
}

var vfGoHdr = regexp.MustCompile(`^goroutine (\d+) \[([^\]]+)\]:`)

func vfGoroutines() []vfGoroutine {
	buf := make([]byte, 1<<20)
	for {
		n := runtime.Stack(buf, true)
		if n < len(buf) {
			buf = buf[:n]
			break
		}
		buf = make([]byte, 2*len(buf))
	}
	var out []vfGoroutine
	for _, blk := range strings.Split(string(buf), "\n\n") {
		lines := strings.Split(blk, "\n")
		m := vfGoHdr.FindStringSubmatch(lines[0])
		if m == nil {
			continue
		}
		g := vfGoroutine{ID: m[1], State: m[2], Text: blk}
		for _, l := range lines[1:] {
			if !strings.HasPrefix(l, "\t") && l != "" {
				fn := l
				if i := strings.LastIndex(fn, "("); i > 0 {
					fn = fn[:i]
				}
				g.Frames = append(g.Frames, strings.TrimPrefix(fn, "created by "))
			}
		}
		out = append(out, g)
	}
	return out
}

// vfLibFrame reports whether a frame is non-test go-xmpp code.
func vfLibFrame(f string) bool {
	if !strings.HasPrefix(f, "gosrc.io/xmpp.") && !strings.HasPrefix(f, "gosrc.io/xmpp/stanza.") {
		return false
	}
	rest := f[strings.LastIndex(f, "/")+1:]
	if strings.Contains(rest, ".vf") || strings.Contains(rest, ".Vf") || strings.Contains(rest, "TestVf") || strings.Contains(rest, "(*vf") {
		return false
	}
	return true
}

func vfHasFrame(g vfGoroutine, sub string) bool {
	for _, f := range g.Frames {
		if strings.Contains(f, sub) {
			return true
		}
	}
	return false
}

// vfLibGoroutines returns goroutines executing (or created by) library code whose stack contains marker (or any if marker == "").
func vfLibGoroutines(marker string) []vfGoroutine {
	var out []vfGoroutine
	for _, g := range vfGoroutines() {
		lib := false
		for _, f := range g.Frames {
			if vfLibFrame(f) {
				lib = true
			}
		}
		if lib && (marker == "" || strings.Contains(g.Text, marker)) {
			out = append(out, g)
		}
	}
	return out
}

// vfInRoute counts goroutines delivering a packet to the routes (acknowledgement handling inside
// SendMissingStz is not stanza delivery and is excluded).
func vfInRoute() int {
	n := 0
	for _, g := range vfGoroutines() {
		if vfHasFrame(g, "gosrc.io/xmpp.(*Router).route") && !vfHasFrame(g, "gosrc.io/xmpp.SendMissingStz") {
			n++
		}
	}
	return n
}

// vfClientHasRecv reports whether a receive-loop goroutine exists for exactly this client
// (the receiver pointer is the first argument printed in the frame).
func vfClientHasRecv(c *Client) bool {
	needle := fmt.Sprintf("gosrc.io/xmpp.(*Client).recv(%p", c)
	for _, g := range vfGoroutines() {
		if strings.Contains(g.Text, needle) {
			return true
		}
	}
	return false
}

func vfCountFrames(sub string) int {
	n := 0
	for _, g := range vfGoroutines() {
		if vfHasFrame(g, sub) {
			n++
		}
	}
	return n
}

// vfWaitUntil polls cond until it holds or the watchdog expires (→ false: inconclusive, never a verdict by itself).
func vfWaitUntil(max time.Duration, cond func() bool) bool {
	deadline := time.Now().Add(max)
	sleep := 200 * time.Microsecond
	for {
		if cond() {
			return true
		}
		if time.Now().After(deadline) {
			return false
		}
		time.Sleep(sleep)
		if sleep < 20*time.Millisecond {
			sleep *= 2
		}
	}
}

// ---------------------------------------------------------------------------------------------
// test PKI (in memory)

type vfPKI struct {
	CA       *x509.Certificate
	caKey    *ecdsa.PrivateKey
	Pool     *x509.CertPool
	OtherCA  *x509.Certificate
	otherKey *ecdsa.PrivateKey
	certs    map[string]tls.Certificate
	mu       sync.Mutex
}

var vfPKIOnce sync.Once
var vfThePKI *vfPKI

func vfGetPKI() *vfPKI {
	vfPKIOnce.Do(func() {
		p := &vfPKI{certs: map[string]tls.Certificate{}}
		p.CA, p.caKey = vfMakeCA("vf test CA")
		p.OtherCA, p.otherKey = vfMakeCA("vf untrusted CA")
		p.Pool = x509.NewCertPool()
		p.Pool.AddCert(p.CA)
		vfThePKI = p
	})
	return vfThePKI
}

func vfMakeCA(cn string) (*x509.Certificate, *ecdsa.PrivateKey) {
	key, _ := ecdsa.GenerateKey(elliptic.P256(), crand.Reader)
	tpl := &x509.Certificate{
		SerialNumber: big.NewInt(time.Now().UnixNano()), Subject: pkix.Name{CommonName: cn},
		NotBefore: time.Now().Add(-time.Hour), NotAfter: time.Now().Add(24 * time.Hour),
		IsCA: true, KeyUsage: x509.KeyUsageCertSign | x509.KeyUsageDigitalSignature, BasicConstraintsValid: true,
	}
	der, err := x509.CreateCertificate(crand.Reader, tpl, tpl, &key.PublicKey, key)
	if err != nil {
		panic(err)
	}
	c, _ := x509.ParseCertificate(der)
	return c, key
}

// Cert returns a server certificate: kind ∈ valid | expired | untrusted | selfsigned, for the given DNS names.
func (p *vfPKI) Cert(kind string, names ...string) tls.Certificate {
	k := kind + "|" + strings.Join(names, ",")
	p.mu.Lock()
	defer p.mu.Unlock()
	if c, ok := p.certs[k]; ok {
		return c
	}
	key, _ := ecdsa.GenerateKey(elliptic.P256(), crand.Reader)
	tpl := &x509.Certificate{
		SerialNumber: big.NewInt(time.Now().UnixNano()), Subject: pkix.Name{CommonName: names[0]},
		NotBefore: time.Now().Add(-time.Hour), NotAfter: time.Now().Add(12 * time.Hour),
		KeyUsage: x509.KeyUsageDigitalSignature, ExtKeyUsage: []x509.ExtKeyUsage{x509.ExtKeyUsageServerAuth},
	}
	for _, n := range names {
		if ip := net.ParseIP(n); ip != nil {
			tpl.IPAddresses = append(tpl.IPAddresses, ip)
		} else {
			tpl.DNSNames = append(tpl.DNSNames, n)
		}
	}
	parent, pkey := p.CA, p.caKey
	switch kind {
	case "expired":
		tpl.NotBefore, tpl.NotAfter = time.Now().Add(-48*time.Hour), time.Now().Add(-24*time.Hour)
	case "untrusted":
		parent, pkey = p.OtherCA, p.otherKey
	case "selfsigned":
		parent, pkey = tpl, key
	}
	der, err := x509.CreateCertificate(crand.Reader, tpl, parent, &key.PublicKey, pkey)
	if err != nil {
		panic(err)
	}
	c := tls.Certificate{Certificate: [][]byte{der}, PrivateKey: key}
	p.certs[k] = c
	return c
}

func (p *vfPKI) ServerConfig(kind string, names ...string) *tls.Config {
	return &tls.Config{Certificates: []tls.Certificate{p.Cert(kind, names...)}}
}

func vfSprintf(f string, a ...interface{}) string { return fmt.Sprintf(f, a...) }

package xmpp

// C09 — with stream management active, the handled count reported in every <a/> and in <resume/>
// equals the number of stanzas received on the stream-managed session; nonzas are never counted.

import (
	"context"
	"fmt"
	"math/rand"
	"strconv"
	"strings"
	"sync"
	"sync/atomic"
	"testing"
	"time"

	"gosrc.io/xmpp/stanza"
	"vfkit"
)

type vfC09Case struct {
	Seed     int64        `json:"seed"`
	Segments [][]vfInElem `json:"segments"` // one inbound history per connection (fresh, then resumptions)
	// Refused[k]: the resumption attempted on connection k is refused with <failed/>; the client binds and enables
	// stream management again - a new stream-managed session, which counts from zero
	Refused []bool `json:"refused,omitempty"`
	// EnabledResume: resume attribute of the first <enabled/> ("true", "false" or "": absent). Stream management is
	// active either way; without "true" the session is simply not resumable (single-connection histories only).
	EnabledResume string `json:"enabled_resume"`
	// Pending[k]: ids of SendIQ requests the application has outstanding on connection k; the history of that
	// connection contains their results, which are stanzas like any other
	Pending [][]string `json:"pending,omitempty"`
	// PartialCut[k]: right before connection k is cut, the peer writes the beginning of one more stanza (start tag and
	// some content): it was not received, so it is not counted
	PartialCut []bool `json:"partial_cut,omitempty"`
	// InHandler: the application resumes synchronously inside the Disconnected event handler (what a StreamManager
	// does) instead of after the event has been delivered
	InHandler bool `json:"in_handler,omitempty"`
	// MandatorySession: the server requires the legacy session request on fresh binds (its result is a stanza: if the
	// client has stream management enabled before asking for it, the result counts like any other)
	MandatorySession bool `json:"mandatory_session,omitempty"`
}

type vfC09Obs struct {
	mu      sync.Mutex
	answers [][]string // per connection: h of every <a/> in order
	resumeH []string   // h of <resume/> on connection k>=1
	prevIds []string
	perr    error
	// negStanzas[k]: stanzas the peer sent during the negotiation of connection k after its <enabled/>
	negStanzas []int
}

func vfC09Run(run *vfkit.Run, cs *vfC09Case) {
	obs := &vfC09Obs{}
	r := rand.New(rand.NewSource(cs.Seed))
	nconn := len(cs.Segments)
	connDone := make([]chan struct{}, nconn)
	goSend := make([]chan struct{}, nconn)
	for i := range connDone {
		connDone[i] = make(chan struct{})
		goSend[i] = make(chan struct{})
	}
	var cancels []context.CancelFunc
	defer func() {
		for _, f := range cancels {
			f()
		}
	}()
	sendPending := func(c *Client, k int) {
		if k < len(cs.Pending) {
			for _, id := range cs.Pending[k] {
				iq, _ := stanza.NewIQ(stanza.Attrs{Type: "get", Id: id, To: "srv"})
				iq.Payload = &stanza.Version{}
				ctx, cancel := context.WithCancel(context.Background())
				cancels = append(cancels, cancel)
				if ch, err := c.SendIQ(ctx, iq); err == nil {
					go func() {
						for range ch {
						}
					}()
				}
			}
		}
		close(goSend[k])
	}
	peer := vfNewPeer(func(pc *vfPeerConn) {
		k := pc.N
		if k >= nconn {
			return
		}
		defer close(connDone[k])
		refused := k < len(cs.Refused) && cs.Refused[k]
		o := &vfNeg{SM: true, ExpectEnable: k == 0 || refused, SMResume: "true", SMID: fmt.Sprintf("sess-%d", k+1), ExpectPresence: k == 0, Bind: true, Resume: "resumed"}
		if k == 0 && cs.EnabledResume != "" {
			o.SMResume = cs.EnabledResume
			if o.SMResume == "absent" {
				o.SMResume = ""
			}
		}
		if refused {
			o.Resume = "failed"
		}
		if cs.MandatorySession {
			o.Session = "mandatory"
		}
		defer func() {
			obs.mu.Lock()
			for len(obs.negStanzas) <= k {
				obs.negStanzas = append(obs.negStanzas, 0)
			}
			obs.negStanzas[k] = o.StanzasAfterEnabled
			obs.mu.Unlock()
		}()
		if k == 0 {
			if _, err := pc.Negotiate(o); err != nil {
				obs.perr = fmt.Errorf("conn %d: %v", k, err)
				return
			}
		} else {
			// same negotiation, but the client must ask to resume; record what it asks
			if out, err := pc.Negotiate(o); err != nil || (out != "resumed" && !refused) || (refused && out != "bound+sm") {
				obs.perr = fmt.Errorf("conn %d: negotiation ended with %q, %v", k, out, err)
				return
			}
			for _, e := range pc.Elems() {
				if e.Is(vfNSSM, "resume") {
					obs.mu.Lock()
					obs.resumeH = append(obs.resumeH, e.Attrs["h"])
					obs.prevIds = append(obs.prevIds, e.Attrs["previd"])
					obs.mu.Unlock()
				}
			}
		}
		<-goSend[k] // the application has issued its SendIQ requests on this connection
		var sb strings.Builder
		nr := 0
		for _, e := range cs.Segments[k] {
			sb.WriteString(e.XML)
			if e.Kind == "r" {
				nr++
			}
		}
		// a final <r/> makes sure everything before it has been consumed before the cut
		sb.WriteString(`<r xmlns="urn:xmpp:sm:3"/>`)
		nr++
		pc.SendSeg(sb.String(), r)
		var hs []string
		for len(hs) < nr {
			e, err := pc.Next()
			if err != nil {
				break
			}
			if e.Is(vfNSSM, "a") {
				hs = append(hs, e.Attrs["h"])
			}
		}
		obs.mu.Lock()
		for len(obs.answers) <= k {
			obs.answers = append(obs.answers, nil)
		}
		obs.answers[k] = hs
		obs.mu.Unlock()
		if k < len(cs.PartialCut) && cs.PartialCut[k] {
			pc.Send(fmt.Sprintf("<message id='partial-%d' from='peer@example.org/r' type='chat'><body>cut in the mid", k))
		}
		pc.Close() // FIN: the client loses the connection
	})
	defer peer.Stop()
	defer func() { // release peer handlers that still wait for the application
		for _, ch := range goSend {
			select {
			case <-ch:
			default:
				close(ch)
			}
		}
	}()
	c, cobs, err := vfNewClient(vfClientOpt{Addr: peer.Addr(), Insecure: true, SM: true, SMResume: true}, nil)
	if err != nil {
		run.Inconclusive("newclient")
		return
	}
	cobs.catchAll(c.router)
	resumedCh := make(chan error, 8)
	if cs.InHandler {
		var resumes int32
		c.SetHandler(func(e Event) error {
			cobs.onEvent(e)
			if e.State.state == StateDisconnected && int(atomic.AddInt32(&resumes, 1)) < nconn {
				resumedCh <- c.Resume()
			}
			return nil
		})
	}
	if err := c.Connect(); err != nil {
		run.Inconclusive("connect-failed")
		run.Note(err.Error())
		return
	}
	sendPending(c, 0)
	for k := 0; k < nconn; k++ {
		select {
		case <-connDone[k]:
		case <-time.After(15 * time.Second):
			// the peer is still waiting for an answer: decide by the client's state
			if !vfClientHasRecv(c) {
				obs.mu.Lock()
				got := 0
				if k < len(obs.answers) {
					got = len(obs.answers[k])
				}
				obs.mu.Unlock()
				run.Violation(fmt.Sprintf("C09/ack-requests-unanswered:conn%d", vfMin(k, 1)), fmt.Sprintf("connection %d: the client has no receive loop and answered %d acknowledgement requests; the peer is still waiting", k, got), cs)
			} else {
				run.Inconclusive("watchdog")
			}
			go c.Disconnect()
			return
		}
		if obs.perr != nil {
			break
		}
		if k+1 < nconn {
			// wait for the loss report, then reconnect the way a StreamManager does
			if !vfWaitUntil(10*time.Second, func() bool { return cobs.CountState(StateDisconnected) >= k+1 }) {
				run.Inconclusive("no-disconnect-event")
				var dump []string
				for _, g := range vfLibGoroutines("") {
					dump = append(dump, g.Text)
				}
				run.Note(map[string]interface{}{"why": "no-disconnect-event", "events": cobs.Events(), "errors": cobs.Errors(), "hasRecv": vfClientHasRecv(c), "goroutines": dump})
				go c.Disconnect()
				return
			}
			var rerr error
			if cs.InHandler {
				select {
				case rerr = <-resumedCh:
				case <-time.After(20 * time.Second):
					run.Inconclusive("resume-in-handler-watchdog")
					go c.Disconnect()
					return
				}
				run.Count("resumes_inside_disconnected_handler", 1)
			} else {
				rerr = c.Resume()
			}
			if rerr != nil {
				run.Inconclusive("resume-failed")
				run.Note(rerr.Error())
				go c.Disconnect()
				return
			}
			sendPending(c, k+1)
		}
	}
	go c.Disconnect()
	if obs.perr != nil {
		run.Inconclusive("peer-script")
		run.Note(obs.perr.Error())
		return
	}
	// oracle: pure counting
	total := 0
	for k := 0; k < nconn; k++ {
		if k >= 1 {
			obs.mu.Lock()
			ok := k-1 < len(obs.resumeH)
			var h, pid string
			if ok {
				h, pid = obs.resumeH[k-1], obs.prevIds[k-1]
			}
			obs.mu.Unlock()
			if !ok {
				run.Violation("C09/no-resume-request", fmt.Sprintf("connection %d: no <resume/> seen", k), cs)
				return
			}
			if h != strconv.Itoa(total) {
				run.Violation("C09/resume-h-wrong", fmt.Sprintf("connection %d: <resume h=%q previd=%q>, stanzas sent on the session so far: %d", k, h, pid, total), cs)
				return
			}
			run.Count("resume_counts_checked", 1)
			if k < len(cs.Refused) && cs.Refused[k] {
				total = 0 // refused: what follows is a new stream-managed session
				run.Count("fresh_sessions_after_refusal", 1)
			}
		}
		obs.mu.Lock()
		if k < len(obs.negStanzas) {
			total += obs.negStanzas[k] // what the server sent on the session before the history proper (normally nothing)
		}
		obs.mu.Unlock()
		obs.mu.Lock()
		hs := append([]string(nil), obs.answers[k]...)
		obs.mu.Unlock()
		j := 0
		prevKind := "start"
		elems := append(append([]vfInElem(nil), cs.Segments[k]...), vfInElem{Kind: "r"})
		for _, e := range elems {
			if e.Stanza {
				total++
			}
			if e.Kind == "r" {
				if j >= len(hs) {
					run.Violation("C09/ack-request-unanswered", fmt.Sprintf("connection %d: %d <r/> sent, %d answered", k, j+1, len(hs)), cs)
					return
				}
				if hs[j] != strconv.Itoa(total) {
					run.Violation("C09/h-wrong:after-"+prevKind, fmt.Sprintf("connection %d: answer #%d reports h=%s, stanzas sent before that request: %d (previous element: %s)", k, j+1, hs[j], total, prevKind), cs)
					return
				}
				j++
				run.Count("answers_checked", 1)
			}
			if e.Kind != "r" {
				prevKind = e.Kind
			}
		}
	}
	if cs.EnabledResume != "true" {
		run.Count("sessions_without_resumption", 1)
	}
	for _, p := range cs.Pending {
		run.Count("responses_to_pending_requests", int64(len(p)))
	}
	run.Count("stanzas_counted", int64(total))
	run.Nontrivial(fmt.Sprintf("%d|%d|%d", cs.Seed, nconn, total))
}

func TestVf_C09(t *testing.T) {
	run := vfkit.Open("C09", "stream-managed sessions; inbound histories over {message, presence, iq, unknown-extension stanzas, <r/>, <a h/>} with <r/> at random positions, "+
		"continued over 0-3 resumptions (peer syncs with <r/>, cuts with FIN, client reconnects with Resume()); oracle: h of the j-th <a/> == stanzas sent before the j-th <r/>, "+
		"h of <resume/> == stanzas sent on the session so far; non-trivial = history with >=1 stanza and >=1 checked answer")
	defer run.Close()
	var rc vfC09Case
	if run.ReplayCase(&rc) {
		run.Case(rc)
		vfC09Run(run, &rc)
		return
	}
	n := vfkit.Pick(300, 6000)
	maxLen := vfkit.Pick(40, 200)
	var wg sync.WaitGroup
	workers := 8
	for wk := 0; wk < workers; wk++ {
		wg.Add(1)
		go func(wk int) {
			defer wg.Done()
			for c := wk; c < n && !run.Enough(); c += workers {
				r := rand.New(rand.NewSource(vfkit.Seed()*7919 + int64(c)))
				cs := &vfC09Case{Seed: vfkit.Seed()*104729 + int64(c)}
				nseg := 1
				if c%3 == 0 {
					nseg = 2 + r.Intn(3)
				}
				cs.EnabledResume = "true"
				if nseg == 1 && r.Intn(3) == 0 {
					cs.EnabledResume = []string{"false", "absent"}[r.Intn(2)]
				}
				for s := 0; s < nseg; s++ {
					seg := vfGenInbound(r, r.Intn(maxLen), "", true, fmt.Sprintf("h%d-%d", c, s))
					var pend []string
					for q := r.Intn(4); q > 0; q-- {
						id := fmt.Sprintf("q%d-%d-%d", c, s, q)
						pend = append(pend, id)
						el := vfInElem{Kind: "iq", Id: id, Stanza: true, XML: fmt.Sprintf(`<iq type="result" id="%s" from="srv"><query xmlns="jabber:iq:version"><name>n</name></query></iq>`, id)}
						p := r.Intn(len(seg) + 1)
						seg = append(seg[:p], append([]vfInElem{el}, seg[p:]...)...)
					}
					cs.Segments = append(cs.Segments, seg)
					cs.Pending = append(cs.Pending, pend)
					cs.Refused = append(cs.Refused, s > 0 && r.Intn(3) == 0)
					cs.PartialCut = append(cs.PartialCut, nseg > 1 && r.Intn(2) == 0)
				}
				cs.InHandler = nseg > 1 && r.Intn(2) == 0
				cs.MandatorySession = r.Intn(3) == 0
				run.Case(cs)
				if c < 2 {
					var kinds []string
					for _, e := range cs.Segments[0] {
						kinds = append(kinds, e.Kind)
					}
					run.Sample(map[string]interface{}{"connections": nseg, "first_history_kinds": kinds})
				}
				run.Count("connections", int64(nseg))
				vfC09Run(run, cs)
			}
		}(wk)
	}
	wg.Wait()
	if run.NViolations() > 0 {
		t.Fail()
	}
}

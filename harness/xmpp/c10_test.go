package xmpp

// C10 — stream management: sent stanzas are held until acknowledged and retransmitted in order.
// Send-log / held-list model stepped alongside the real client; the peer's raw byte log is the wire.

import (
	"context"
	"encoding/xml"
	"fmt"
	"math/rand"
	"strings"
	"sync"
	"sync/atomic"
	"testing"
	"time"

	"gosrc.io/xmpp/stanza"
	"vfkit"
)

type vfC10Step struct {
	Op   string `json:"op"`             // msg pres iq raw r a ack
	Text string `json:"text,omitempty"` // stanza bytes as expected on the wire
	N    int    `json:"n,omitempty"`    // ack: h
	Rel  string `json:"rel,omitempty"`  // ack: how h relates to the send log
	G    int    `json:"g,omitempty"`    // sender goroutine (concurrent mode)
}

type vfC10Case struct {
	Seed    int64       `json:"seed"`
	Senders int         `json:"senders"`
	Steps   []vfC10Step `json:"steps"`
}

const vfWireR = `<r xmlns="urn:xmpp:sm:3"></r>`

type vfC10Model struct {
	L []string // send log: every stanza written on the session, wire order; position = index+1
	Q []int    // held: indices into L
	W []string // expected wire after the negotiation
}

func (m *vfC10Model) send(x string) {
	m.L = append(m.L, x)
	m.Q = append(m.Q, len(m.L)-1)
	m.W = append(m.W, x)
}

func (m *vfC10Model) ack(n int) {
	var keep []int
	for _, i := range m.Q {
		if i+1 > n {
			keep = append(keep, i)
		}
	}
	m.Q = nil
	if len(keep) == 0 {
		return
	}
	for _, i := range keep {
		m.L = append(m.L, m.L[i])
		m.Q = append(m.Q, len(m.L)-1)
		m.W = append(m.W, m.L[i])
	}
	m.W = append(m.W, vfWireR)
}

func (m *vfC10Model) held() []string {
	var out []string
	for _, i := range m.Q {
		out = append(out, m.L[i])
	}
	return out
}

func vfQueueTexts(c *Client) ([]string, []int) {
	q := c.Session.SMState.UnAckQueue
	if q == nil {
		return nil, nil
	}
	type res struct {
		out []string
		ids []int
	}
	done := make(chan res, 1)
	go func() {
		q.RLock()
		defer q.RUnlock()
		var r res
		for _, e := range q.Uslice {
			r.out = append(r.out, e.Stz)
			r.ids = append(r.ids, e.Id)
		}
		done <- r
	}()
	select {
	case r := <-done:
		return r.out, r.ids
	case <-time.After(10 * time.Second):
		// whoever holds the queue's lock is stuck (nothing in the library holds it across anything that can take long):
		// report that instead of hanging with it - no model of the held list contains this entry
		return []string{"<the lock of the unacknowledged queue was never released: its holder is stuck>"}, nil
	}
}

func vfRouterBusy(r *Router) bool {
	needle := fmt.Sprintf("gosrc.io/xmpp.(*Router).route(%p", r)
	for _, g := range vfGoroutines() {
		if strings.Contains(g.Text, needle) {
			return true
		}
	}
	return false
}

func vfSameStrs(a, b []string) bool {
	if len(a) != len(b) {
		return false
	}
	for i := range a {
		if a[i] != b[i] {
			return false
		}
	}
	return true
}

func vfGenC10(r *rand.Rand, c int, maxSteps int, senders int) *vfC10Case {
	cs := &vfC10Case{Seed: int64(c), Senders: senders}
	n := 5 + r.Intn(maxSteps-4)
	sent := 1 // the initial presence
	lastAck := 0
	for i := 0; i < n; i++ {
		id := fmt.Sprintf("o%d-%d", c, i)
		switch k := r.Intn(16); {
		case k < 4:
			cs.Steps = append(cs.Steps, vfC10Step{Op: "msg", Text: id})
			sent++
		case k < 6:
			cs.Steps = append(cs.Steps, vfC10Step{Op: "pres", Text: id})
			sent++
		case k < 8:
			cs.Steps = append(cs.Steps, vfC10Step{Op: "iq", Text: id})
			sent++
		case k < 10:
			cs.Steps = append(cs.Steps, vfC10Step{Op: "raw", Text: fmt.Sprintf(`<message id='%s' to='x@y'><body>raw &amp; %d</body></message>`, id, i)})
			sent++
		case k < 11:
			if r.Intn(2) == 0 {
				cs.Steps = append(cs.Steps, vfC10Step{Op: "peer-r"})
			} else {
				cs.Steps = append(cs.Steps, vfC10Step{Op: "r"})
			}
		case k < 12:
			cs.Steps = append(cs.Steps, vfC10Step{Op: "a", N: r.Intn(5)})
		default:
			st := vfC10Step{Op: "ack"}
			switch r.Intn(7) {
			case 0:
				st.N, st.Rel = 0, "h=0"
			case 1:
				st.N, st.Rel = sent, "h=sent"
			case 2:
				st.N, st.Rel = sent+1+r.Intn(3), "h>sent"
			case 3:
				st.N, st.Rel = lastAck, "h=repeat"
			case 4:
				if lastAck > 0 {
					st.N, st.Rel = r.Intn(lastAck), "h=stale"
				} else {
					st.N, st.Rel = 1, "h=presence-only"
				}
			default:
				if sent > 1 {
					st.N, st.Rel = 1+r.Intn(sent-1), "h<sent"
				} else {
					st.N, st.Rel = 1, "h=sent"
				}
			}
			cs.Steps = append(cs.Steps, st)
			if st.N > lastAck {
				lastAck = st.N
			}
			// a retransmission re-sends everything above h: the model below recomputes, here only an estimate for choosing h
			if st.N < sent {
				sent += sent - st.N
			}
		}
	}
	// make sure every history ends with an acknowledgement - in a third of them with the connection dead for writes
	if k := r.Intn(6); k == 0 {
		cs.Steps = append(cs.Steps, vfC10Step{Op: "msg", Text: fmt.Sprintf("o%d-last", c)}, vfC10Step{Op: "dead-send", Text: fmt.Sprintf("o%d-void", c)})
	} else if k <= 2 {
		cs.Steps = append(cs.Steps, vfC10Step{Op: "msg", Text: fmt.Sprintf("o%d-last", c)}, vfC10Step{Op: "dead-then-ack", N: r.Intn(sent + 1), Rel: "h<sent"})
	} else {
		cs.Steps = append(cs.Steps, vfC10Step{Op: "ack", N: 1 + r.Intn(sent+1), Rel: "h<sent"})
	}
	return cs
}

type vfC10Session struct {
	c     *Client
	obs   *vfObs
	peer  *vfPeer
	pc    *vfPeerConn
	mark  int
	ready chan struct{}
	acks  chan string
	perr  error
	mk    int
	fc    *vfFaultConn
}

func vfC10Open() (*vfC10Session, error) {
	s := &vfC10Session{ready: make(chan struct{}), acks: make(chan string, 4)}
	s.peer = vfNewPeer(func(pc *vfPeerConn) {
		o := &vfNeg{SM: true, ExpectEnable: true, SMResume: "true", ExpectPresence: true, Bind: true}
		if _, err := pc.Negotiate(o); err != nil {
			s.perr = err
			close(s.ready)
			return
		}
		s.pc = pc
		s.mark = len(pc.ClearBytes())
		close(s.ready)
		rdone := make(chan struct{})
		go func() {
			defer close(rdone)
			for {
				e, err := pc.Next()
				if err != nil {
					return
				}
				if e.Kind == "close" {
					pc.Send("</stream:stream>")
				}
			}
		}()
		for {
			select {
			case a, ok := <-s.acks:
				if !ok {
					<-rdone
					return
				}
				pc.Send(a)
			case <-rdone:
				return
			}
		}
	})
	c, obs, err := vfNewClient(vfClientOpt{Addr: s.peer.Addr(), Insecure: true, SM: true, SMResume: true}, nil)
	if err != nil {
		s.peer.Stop()
		return nil, err
	}
	obs.catchAll(c.router)
	s.c, s.obs = c, obs
	if err := c.Connect(); err != nil {
		s.peer.Stop()
		return nil, err
	}
	<-s.ready
	if s.perr != nil {
		s.peer.Stop()
		return nil, s.perr
	}
	// writes can be made to fail from a chosen moment on (only writers read this field after Connect)
	xt := c.transport.(*XMPPTransport)
	s.fc = &vfFaultConn{Conn: xt.conn}
	xt.readWriter = newStreamLogger(s.fc, nil)
	return s, nil
}

func (s *vfC10Session) Close() {
	close(s.acks)
	go func() {
		s.c.Disconnect()
		s.peer.Stop()
	}()
}

func (s *vfC10Session) wire() string {
	b := s.pc.ClearBytes()
	if len(b) < s.mark {
		return ""
	}
	return b[s.mark:]
}

// ackAndSettle sends <a h=n/> followed by a marker stanza and waits until the marker was handled and
// no routing goroutine of this client's router exists any more (the <a/> route was spawned before the marker's).
func (s *vfC10Session) ackAndSettle(n int) bool {
	s.mk++
	mk := fmt.Sprintf("mk-%d", s.mk)
	answersBefore := s.obs.countKind("Stream Management: answer")
	s.acks <- fmt.Sprintf(`<a xmlns="urn:xmpp:sm:3" h="%d"/><message id="%s" from="peer"><body>m</body></message>`, n, mk)
	return vfWaitUntil(15*time.Second, func() bool {
		seen := false
		for _, id := range s.obs.Handled() {
			if id == mk {
				seen = true
			}
		}
		// the acknowledgement itself has come out of the router's bookkeeping (it reaches the catch-all route only after
		// the retransmission is done): a routing goroutine that was created but has not started yet is invisible in a
		// goroutine dump, so "nobody is in route" alone could be true a moment too early
		return seen && s.obs.countKind("Stream Management: answer") > answersBefore && !vfRouterBusy(s.c.router)
	})
}

func vfC10Packet(op, id string) stanza.Packet {
	switch op {
	case "msg":
		return stanza.Message{Attrs: stanza.Attrs{Id: id, To: "a@b", Type: "chat"}, Body: "body of " + id + " <&>"}
	case "pres":
		return stanza.Presence{Attrs: stanza.Attrs{Id: id}, Status: "st " + id}
	case "iq":
		iq, _ := stanza.NewIQ(stanza.Attrs{Id: id, Type: "get", To: "srv"})
		iq.Payload = &stanza.Version{}
		return iq
	}
	return nil
}

func vfC10RunSequential(run *vfkit.Run, cs *vfC10Case) {
	s, err := vfC10Open()
	if err != nil {
		run.Inconclusive("session-setup")
		run.Note(fmt.Sprint(err))
		return
	}
	defer s.Close()
	m := &vfC10Model{L: []string{InitialPresence}}
	held0, _ := vfQueueTexts(s.c)
	switch {
	case len(held0) == 0:
	case len(held0) == 1 && held0[0] == InitialPresence:
		m.Q = []int{0} // the library holds the initial presence as well: consistent with the statement
	default:
		run.Violation("C10/queue-not-empty-after-connect", fmt.Sprintf("queue after Connect: %q", held0), cs)
		return
	}
	lastRel := "none"
	nAcks := 0
	inbound := 0 // stanzas the client has received (the markers)
	for i, st := range cs.Steps {
		where := fmt.Sprintf("step %d %s", i, st.Op)
		switch st.Op {
		case "msg", "pres", "iq":
			p := vfC10Packet(st.Op, st.Text)
			b, _ := xml.Marshal(p)
			var err error
			if iq, ok := p.(*stanza.IQ); ok && i%2 == 0 && (iq.Type == stanza.IQTypeGet || iq.Type == stanza.IQTypeSet) {
				// a request sent the way applications send requests: it is a stanza on the session like any other
				ctx, cancel := context.WithCancel(context.Background())
				_, err = s.c.SendIQ(ctx, iq)
				cancel()
				run.Count("requests_sent_with_sendiq", 1)
			} else {
				err = s.c.Send(p)
			}
			if err != nil {
				run.Violation("C10/send-error", fmt.Sprintf("%s: %v", where, err), cs)
				return
			}
			m.send(string(b))
		case "raw":
			if err := s.c.SendRaw(st.Text); err != nil {
				run.Violation("C10/send-error", fmt.Sprintf("%s: %v", where, err), cs)
				return
			}
			m.send(st.Text)
		case "r":
			if err := s.c.Send(stanza.SMRequest{}); err != nil {
				run.Violation("C10/send-error", fmt.Sprintf("%s: %v", where, err), cs)
				return
			}
			m.W = append(m.W, vfWireR)
		case "a":
			if err := s.c.Send(stanza.SMAnswer{H: uint(st.N)}); err != nil {
				run.Violation("C10/send-error", fmt.Sprintf("%s: %v", where, err), cs)
				return
			}
			m.W = append(m.W, fmt.Sprintf(`<a xmlns="urn:xmpp:sm:3" h="%d"></a>`, st.N))
		case "peer-r":
			// the server asks: the client's answer goes on the wire, carries the inbound count, and is not held
			s.mk++
			mk := fmt.Sprintf("mk-%d", s.mk)
			s.acks <- fmt.Sprintf(`<r xmlns="urn:xmpp:sm:3"/><message id="%s" from="peer"><body>m</body></message>`, mk)
			if !vfWaitUntil(15*time.Second, func() bool {
				for _, id := range s.obs.Handled() {
					if id == mk {
						return !vfRouterBusy(s.c.router)
					}
				}
				return false
			}) {
				run.Inconclusive("settle-watchdog")
				return
			}
			m.W = append(m.W, fmt.Sprintf(`<a xmlns="urn:xmpp:sm:3" h="%d"></a>`, inbound))
			inbound++ // the marker
		case "dead-send":
			// the connection is dead for writes and the application sends: that Send fails (or, who knows, is accepted
			// and held) - but whatever was accepted before and is still unacknowledged stays held, in its order
			atomic.StoreInt32(&s.fc.failAll, 1)
			before, _ := vfQueueTexts(s.c)
			serr := s.c.Send(stanza.Message{Attrs: stanza.Attrs{Id: st.Text, To: "a@b"}, Body: "into the void"})
			after, _ := vfQueueTexts(s.c)
			okPrefix := len(after) >= len(before) && len(after) <= len(before)+1 && vfSameStrs(after[:len(before)], before)
			if !vfSameStrs(before, m.held()) || !okPrefix {
				run.Violation("C10/held-list-wrong:after-failed-send", fmt.Sprintf("step %d: writes fail, Send returned %v: held before %d %s, held after %d %s, unacknowledged by the model %d %s", i, serr, len(before), vfClipList(before), len(after), vfClipList(after), len(m.held()), vfClipList(m.held())), cs)
				return
			}
			run.Count("failed_sends_with_others_held", 1)
			run.Count("steps_checked", int64(i+1))
			run.Nontrivial(fmt.Sprintf("%v", cs.Steps))
			return
		case "dead-then-ack":
			// from now on every write fails; the acknowledgement that follows leaves stanzas unacknowledged, whose
			// retransmission therefore fails: they must still be held
			atomic.StoreInt32(&s.fc.failAll, 1)
			if !s.ackAndSettle(st.N) {
				// routing of the acknowledgement has not come to an end: is it stuck on the queue's own lock?
				if got, _ := vfQueueTexts(s.c); len(got) == 1 && strings.HasPrefix(got[0], "<the lock of the unacknowledged queue") {
					run.Violation("C10/held-list-unreachable:retransmission-write-fails", fmt.Sprintf("step %d: writes fail, <a h=%d/>: the routine that handles the acknowledgement never finished and holds the queue's lock - every later Send on the session blocks", i, st.N), cs)
					return
				}
				run.Inconclusive("settle-watchdog")
				return
			}
			var keep []string
			for _, qi := range m.Q {
				if qi+1 > st.N {
					keep = append(keep, m.L[qi])
				}
			}
			got, _ := vfQueueTexts(s.c)
			if !vfSameStrs(got, keep) {
				run.Violation("C10/held-list-wrong:retransmission-write-fails", fmt.Sprintf("step %d: writes fail, <a h=%d/>: queue holds %d %s, unacknowledged stanzas are %d %s", i, st.N, len(got), vfClipList(got), len(keep), vfClipList(keep)), cs)
				return
			}
			run.Count("failed_retransmissions_checked", 1)
			run.Count("steps_checked", int64(i+1))
			run.Nontrivial(fmt.Sprintf("%v", cs.Steps))
			return
		case "ack":
			heldBefore := len(m.Q)
			sentBefore := len(m.L)
			if !s.ackAndSettle(st.N) {
				run.Inconclusive("settle-watchdog")
				return
			}
			m.ack(st.N)
			inbound++ // the marker that follows the acknowledgement
			nAcks++
			lastRel = st.Rel
			where = fmt.Sprintf("step %d ack h=%d (%s; %d stanzas on the session, %d held before)", i, st.N, st.Rel, sentBefore, heldBefore)
		}
		// queue == model after every step
		got, ids := vfQueueTexts(s.c)
		if !vfSameStrs(got, m.held()) {
			kind := "after-" + st.Op
			if st.Op == "ack" {
				kind = "after-ack:" + st.Rel
			} else if nAcks > 0 {
				kind += ":following-ack:" + lastRel
			}
			run.Violation("C10/held-list-wrong:"+kind, fmt.Sprintf("%s: queue holds %d entries %s, model holds %d %s", where, len(got), vfClipList(got), len(m.held()), vfClipList(m.held())), cs)
			return
		}
		for j := 1; j < len(ids); j++ {
			if ids[j] <= ids[j-1] {
				run.Violation("C10/sequence-numbers-not-increasing", fmt.Sprintf("%s: ids %v", where, ids), cs)
				return
			}
		}
		// wire == model (wait for the bytes the client has already written to arrive)
		want := strings.Join(m.W, "")
		vfWaitUntil(4*time.Second, func() bool { return len(strings.Replace(s.wire(), "\n", "", -1)) >= len(want) })
		gotW := strings.Replace(s.wire(), "\n", "", -1)
		if gotW != want {
			kind := "after-" + st.Op
			if st.Op == "ack" {
				kind = "after-ack:" + st.Rel
			}
			run.Violation("C10/wire-wrong:"+kind, fmt.Sprintf("%s: wire differs from the model at byte %d: got …%s, want …%s", where, vfFirstDiff(gotW, want), vfAround(gotW, vfFirstDiff(gotW, want)), vfAround(want, vfFirstDiff(gotW, want))), cs)
			return
		}
		if st.Op == "ack" {
			run.Count("acks_checked_"+st.Rel, 1)
		}
	}
	run.Count("steps_checked", int64(len(cs.Steps)))
	run.Count("retransmitted_stanzas", int64(len(m.L)-1-vfCountSends(cs)))
	run.Nontrivial(fmt.Sprintf("%v", cs.Steps))
}

func vfCountSends(cs *vfC10Case) int {
	n := 0
	for _, s := range cs.Steps {
		switch s.Op {
		case "msg", "pres", "iq", "raw":
			n++
		}
	}
	return n
}

func vfClipList(l []string) string {
	var out []string
	for _, s := range l {
		if len(s) > 50 {
			s = s[:50] + "…"
		}
		out = append(out, s)
	}
	if len(out) > 6 {
		out = append(out[:6], fmt.Sprintf("… (%d)", len(l)))
	}
	return fmt.Sprintf("%q", out)
}

func vfFirstDiff(a, b string) int {
	n := len(a)
	if len(b) < n {
		n = len(b)
	}
	for i := 0; i < n; i++ {
		if a[i] != b[i] {
			return i
		}
	}
	return n
}

func vfAround(s string, i int) string {
	lo, hi := i-40, i+80
	if lo < 0 {
		lo = 0
	}
	if hi > len(s) {
		hi = len(s)
	}
	if lo > len(s) {
		lo = len(s)
	}
	return s[lo:hi]
}

// concurrent senders: G goroutines send their own stanzas at once, then (quiescent) the held list must list
// every stanza exactly once, in the order the peer received them; then one acknowledgement is checked.
func vfC10RunConcurrent(run *vfkit.Run, cs *vfC10Case) {
	s, err := vfC10Open()
	if err != nil {
		run.Inconclusive("session-setup")
		return
	}
	defer s.Close()
	held0, _ := vfQueueTexts(s.c)
	var wg sync.WaitGroup
	per := map[int][]string{}
	for _, st := range cs.Steps {
		if st.Op == "raw" {
			per[st.G] = append(per[st.G], st.Text)
		}
	}
	start := make(chan struct{})
	var sendErr error
	var emu sync.Mutex
	for g, list := range per {
		wg.Add(1)
		go func(g int, list []string) {
			defer wg.Done()
			<-start
			for _, x := range list {
				if err := s.c.SendRaw(x); err != nil {
					emu.Lock()
					sendErr = err
					emu.Unlock()
				}
			}
		}(g, list)
	}
	close(start)
	wg.Wait()
	if sendErr != nil {
		run.Violation("C10/send-error:concurrent", sendErr.Error(), cs)
		return
	}
	total := 0
	wantLen := 0
	for _, l := range per {
		total += len(l)
		for _, x := range l {
			wantLen += len(x)
		}
	}
	vfWaitUntil(10*time.Second, func() bool { return len(s.wire()) >= wantLen })
	wire := s.wire()
	// wire order of the stanzas (each text is unique)
	type posd struct {
		pos int
		x   string
	}
	var order []posd
	for _, l := range per {
		for _, x := range l {
			p := strings.Index(wire, x)
			if p < 0 {
				run.Violation("C10/concurrent:stanza-not-on-wire-whole", fmt.Sprintf("%q not found contiguous on the wire", x), cs)
				return
			}
			order = append(order, posd{p, x})
		}
	}
	for i := 0; i < len(order); i++ {
		for j := i + 1; j < len(order); j++ {
			if order[j].pos < order[i].pos {
				order[i], order[j] = order[j], order[i]
			}
		}
	}
	var wireOrder []string
	for _, o := range order {
		wireOrder = append(wireOrder, o.x)
	}
	got, ids := vfQueueTexts(s.c)
	want := append(append([]string(nil), held0...), wireOrder...)
	if len(got) != len(want) {
		run.Violation("C10/concurrent:held-count-wrong", fmt.Sprintf("%d senders sent %d stanzas (+%d held before); queue holds %d", len(per), total, len(held0), len(got)), cs)
		return
	}
	if !vfSameStrs(got, want) {
		run.Violation("C10/concurrent:held-order-differs-from-wire-order", fmt.Sprintf("queue %s, wire order %s", vfClipList(got), vfClipList(want)), cs)
		return
	}
	for j := 1; j < len(ids); j++ {
		if ids[j] <= ids[j-1] {
			run.Violation("C10/concurrent:sequence-numbers-not-increasing", fmt.Sprintf("ids %v", ids), cs)
			return
		}
	}
	// acknowledge a prefix: exactly the n oldest go away
	n := 1 + int(cs.Seed)%(total+1)
	if !s.ackAndSettle(n) {
		run.Inconclusive("settle-watchdog")
		return
	}
	all := append([]string{InitialPresence}, wireOrder...)
	var remain []string
	for i, x := range all {
		if i+1 > n && (i > 0 || len(held0) == 1) {
			remain = append(remain, x)
		}
	}
	got2, _ := vfQueueTexts(s.c)
	if !vfSameStrs(got2, remain) {
		run.Violation("C10/concurrent:held-list-wrong-after-ack", fmt.Sprintf("after <a h=%d/>: queue %s, model %s", n, vfClipList(got2), vfClipList(remain)), cs)
		return
	}
	run.Count("concurrent_histories_checked", 1)
	run.Count("concurrent_stanzas", int64(total))
	run.Nontrivial(fmt.Sprintf("conc|%d|%v", cs.Seed, wireOrder))
}

// storm: senders and truthful acknowledgements at the same time. The peer answers, at random moments, with the
// number of stanzas it has received so far (what a real server reports). At quiescence - senders returned, a marker
// routed, no routing goroutine left, and a sentinel written by the harness has reached the peer, so the wire log is
// complete - every stanza whose latest copy on the wire lies beyond the last acknowledged position must still be
// held, in wire order, and nothing else; sequence numbers must increase.
func vfC10RunStorm(run *vfkit.Run, cs *vfC10Case) {
	s, err := vfC10Open()
	if err != nil {
		run.Inconclusive("session-setup")
		return
	}
	defer s.Close()
	per := map[int][]string{}
	all := map[string]bool{}
	for _, st := range cs.Steps {
		if st.Op == "raw" {
			per[st.G] = append(per[st.G], st.Text)
			all[st.Text] = true
		}
	}
	countStanzas := func(w string) int {
		return strings.Count(w, "<message ") + strings.Count(w, "<presence") + strings.Count(w, "<iq ")
	}
	var wg sync.WaitGroup
	stopAcks := make(chan struct{})
	var hmax int
	var hmu sync.Mutex
	ackDone := make(chan struct{})
	go func() { // the truthful server
		defer close(ackDone)
		r := rand.New(rand.NewSource(cs.Seed*77 + 5))
		for {
			select {
			case <-stopAcks:
				return
			case <-time.After(time.Duration(r.Intn(400)) * time.Microsecond):
			}
			h := 1 + countStanzas(s.wire()) // + the initial presence, which was read during the negotiation
			select {
			case s.acks <- fmt.Sprintf(`<a xmlns="urn:xmpp:sm:3" h="%d"/>`, h):
				// only an acknowledgement that was really handed to the peer's writer counts
				hmu.Lock()
				if h > hmax {
					hmax = h
				}
				hmu.Unlock()
			case <-stopAcks:
				return
			}
		}
	}()
	var sendErr error
	var emu sync.Mutex
	for g, list := range per {
		wg.Add(1)
		go func(g int, list []string) {
			defer wg.Done()
			for _, x := range list {
				if err := s.c.SendRaw(x); err != nil {
					emu.Lock()
					sendErr = err
					emu.Unlock()
				}
				time.Sleep(0)
			}
		}(g, list)
	}
	wg.Wait()
	close(stopAcks)
	<-ackDone
	if sendErr != nil {
		run.Violation("C10/send-error:storm", sendErr.Error(), cs)
		return
	}
	// quiescence
	s.mk++
	mk := fmt.Sprintf("mk-storm-%d", s.mk)
	s.acks <- fmt.Sprintf(`<message id="%s" from="peer"><body>m</body></message>`, mk)
	if !vfWaitUntil(20*time.Second, func() bool {
		seen := false
		for _, id := range s.obs.Handled() {
			if id == mk {
				seen = true
			}
		}
		return seen && !vfRouterBusy(s.c.router)
	}) {
		run.Inconclusive("storm-settle-watchdog")
		return
	}
	got, ids := vfQueueTexts(s.c)
	sentinel := fmt.Sprintf("<!--sentinel-%d-->", cs.Seed)
	if err := s.c.transport.(*XMPPTransport).conn.SetWriteDeadline(time.Now().Add(10 * time.Second)); err == nil {
		s.c.transport.(*XMPPTransport).conn.Write([]byte(sentinel)) // below the library: not a stanza, not queued
	}
	if !vfWaitUntil(15*time.Second, func() bool { return strings.Contains(s.wire(), sentinel) }) {
		run.Inconclusive("storm-sentinel-watchdog")
		return
	}
	wire := s.wire()
	hmu.Lock()
	H := hmax
	hmu.Unlock()
	// positions: the initial presence is 1; walk the wire
	type occ struct {
		pos  int
		text string
	}
	last := map[string]int{}
	pos := 1
	rest := wire
	for {
		i := strings.Index(rest, "<message ")
		j := strings.Index(rest, "<presence")
		if i < 0 && j < 0 {
			break
		}
		if i < 0 || (j >= 0 && j < i) {
			pos++
			rest = rest[j+9:]
			last["<presence/>"] = pos
			continue
		}
		end := strings.Index(rest[i:], "</message>")
		if end < 0 {
			break
		}
		text := rest[i : i+end+len("</message>")]
		pos++
		last[text] = pos
		rest = rest[i+end+len("</message>"):]
	}
	for t := range all {
		if _, ok := last[t]; !ok {
			run.Violation("C10/storm:stanza-not-on-wire-whole", fmt.Sprintf("%q never appeared whole on the wire", vfClip2(t, 60)), cs)
			return
		}
	}
	var want []occ
	for t, p := range last {
		if p > H && (all[t]) {
			want = append(want, occ{p, t})
		}
	}
	for i := 0; i < len(want); i++ {
		for j := i + 1; j < len(want); j++ {
			if want[j].pos < want[i].pos {
				want[i], want[j] = want[j], want[i]
			}
		}
	}
	var wantT []string
	for _, o := range want {
		wantT = append(wantT, o.text)
	}
	var gotT []string
	for _, t := range got {
		if t != InitialPresence {
			gotT = append(gotT, t)
		}
	}
	if !vfSameStrs(gotT, wantT) {
		k := "C10/storm:held-list-wrong"
		if len(gotT) < len(wantT) {
			k = "C10/storm:unacknowledged-stanza-discarded"
		} else if len(gotT) > len(wantT) {
			k = "C10/storm:acknowledged-stanza-still-held"
		}
		run.Violation(k, fmt.Sprintf("%d senders, last acknowledgement h=%d, %d stanza positions on the wire: queue holds %d %s, expected (latest copy beyond h, wire order) %d %s",
			len(per), H, pos, len(gotT), vfClipList(gotT), len(wantT), vfClipList(wantT)), cs)
		return
	}
	for j := 1; j < len(ids); j++ {
		if ids[j] <= ids[j-1] {
			run.Violation("C10/storm:sequence-numbers-not-increasing", fmt.Sprintf("ids %v", ids), cs)
			return
		}
	}
	run.Count("storm_histories_checked", 1)
	run.Count("storm_wire_positions", int64(pos))
	run.Count("storm_retransmitted", int64(pos-1-len(all)))
	run.Nontrivial(fmt.Sprintf("storm|%d|%d|%d", cs.Seed, H, pos))
}

func TestVf_C10(t *testing.T) {
	run := vfkit.Open("C10", "outbound histories of 5-60 steps over {Send message/presence/iq, SendRaw, Send(SMRequest), Send(SMAnswer), server <a h=N/>} with N in "+
		"{0, presence only, < sent, = sent, > sent, repeated, stale}; after every step the real queue must equal the model's held list and the peer's raw byte log the model's wire "+
		"(retransmissions in original order followed by one <r/>); concurrent histories: 2-8 senders at once, held order must equal wire order, then one acknowledgement; "+
		"non-trivial = history with >=1 acknowledgement checked, distinct by step list")
	defer run.Close()
	var rc vfC10Case
	if run.ReplayCase(&rc) {
		run.Case(rc)
		if rc.Senders < 0 {
			for i := 0; i < 20; i++ {
				vfC10RunStorm(run, &rc)
			}
		} else if rc.Senders > 1 {
			for i := 0; i < 20; i++ {
				vfC10RunConcurrent(run, &rc)
			}
		} else {
			vfC10RunSequential(run, &rc)
		}
		return
	}
	n := vfkit.Pick(400, 12000)
	maxSteps := vfkit.Pick(40, 60)
	var wg sync.WaitGroup
	workers := 8
	for wk := 0; wk < workers; wk++ {
		wg.Add(1)
		go func(wk int) {
			defer wg.Done()
			for c := wk; c < n && !run.Enough(); c += workers {
				r := rand.New(rand.NewSource(vfkit.Seed()*15485863 + int64(c)))
				if c%8 == 7 {
					g := 2 + r.Intn(5)
					cs := &vfC10Case{Seed: int64(c), Senders: -g}
					for gi := 0; gi < g; gi++ {
						k := 3 + r.Intn(20)
						for j := 0; j < k; j++ {
							cs.Steps = append(cs.Steps, vfC10Step{Op: "raw", G: gi, Text: fmt.Sprintf(`<message id='st%d-g%d-%d'><body>%s</body></message>`, c, gi, j, strings.Repeat("y", r.Intn(200)))})
						}
					}
					run.Case(cs)
					vfC10RunStorm(run, cs)
					continue
				}
				if c%4 == 3 {
					g := 2 + r.Intn(7)
					cs := &vfC10Case{Seed: int64(c), Senders: g}
					for gi := 0; gi < g; gi++ {
						k := 1 + r.Intn(12)
						for j := 0; j < k; j++ {
							cs.Steps = append(cs.Steps, vfC10Step{Op: "raw", G: gi, Text: fmt.Sprintf(`<message id='c%d-g%d-%d'><body>%s</body></message>`, c, gi, j, strings.Repeat("x", r.Intn(300)))})
						}
					}
					run.Case(cs)
					vfC10RunConcurrent(run, cs)
					continue
				}
				cs := vfGenC10(r, c, maxSteps, 1)
				run.Case(cs)
				if c < 3 {
					run.Sample(cs)
				}
				vfC10RunSequential(run, cs)
			}
		}(wk)
	}
	wg.Wait()
	if run.NViolations() > 0 {
		t.Fail()
	}
}

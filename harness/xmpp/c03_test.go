package xmpp

// C03 — negotiation succeeds iff the server completed every mandatory step, in order.
// Exhaustive single-deviation scripts x configuration classes against the scripted peer.

import (
	"crypto/tls"
	"fmt"
	"math/rand"
	"regexp"
	"strings"
	"sync"
	"testing"
	"time"

	"vfkit"
)

type vfC03Cfg struct {
	Insecure  bool   `json:"insecure"`
	TLS       string `json:"tls"` // absent | offered | required
	Resource  bool   `json:"resource"`
	SMReq     bool   `json:"smreq"`
	SMAdv     bool   `json:"smadv"`
	Session   string `json:"session"` // "" | optional | mandatory
	Resumable bool   `json:"resumable"`
	Variant   int    `json:"variant"` // cosmetic variations of the OK replies
	// PriorFailed: before the scripted connection the same Client made one attempt against a server that
	// advertised everything (STARTTLS offered, mandatory session, stream management) and refused the bind.
	// What the client learnt there must not leak into the next attempt.
	PriorFailed bool `json:"prior_failed,omitempty"`
}

type vfC03Case struct {
	Cfg  vfC03Cfg `json:"cfg"`
	Step string   `json:"step"` // "" = no deviation
	Dev  string   `json:"dev"`
}

var vfC03Steps = []string{"S0-header", "S1-features", "S2-starttls", "S3-tls", "S4-secure-restart", "S5-sasl", "S6-restart", "S7-resume", "S8-bind", "S9-session", "S10-enable"}

func vfC03Devs(step string) []string {
	common := []string{"stream-error", "unexpected-stanza", "unexpected-nonza", "malformed", "malformed-repairable", "truncated-close", "fin", "rst"}
	switch step {
	case "S0-header":
		return []string{"wrong-root", "malformed", "fin", "rst", "garbage"}
	case "S1-features", "S4-secure-restart", "S6-restart":
		return append([]string{"not-features"}, common...)
	case "S2-starttls":
		return append([]string{"fail"}, common...)
	case "S3-tls":
		return []string{"close-instead-of-handshake", "garbage-instead-of-handshake"}
	case "S5-sasl":
		return append([]string{"fail", "fail-aborted"}, common...)
	case "S7-resume":
		return append([]string{"refuse", "refuse-item-not-found", "other-id", "no-id", "empty-id", "id-prefix", "id-other-case"}, common...)
	case "S8-bind":
		return append([]string{"fail", "fail-echo-payload", "iq-foreign-id", "payload-in-message", "result-without-bind", "type-get"}, common...)
	case "S9-session":
		return append([]string{"fail", "iq-foreign-id", "presence-instead"}, common...)
	case "S10-enable":
		return append([]string{"fail", "fail-with-condition"}, common...)
	}
	return common
}

type vfC03PeerLog struct {
	reached     []string // steps answered OK
	deviated    bool
	devDone     bool
	pipelined   []string
	order       []string
	bindOK      bool
	resumedOK   bool
	scriptErr   string
	applicable  bool   // the deviation point was actually reached
	refused     bool   // the resumption was refused (a legitimate answer)
	unsolicited string // a negotiation request the client sent after the server had completed its script
}

func vfC03Play(pc *vfPeerConn, cs *vfC03Case, scripted bool, tlsCfg *tls.Config, lg *vfC03PeerLog) {
	cfg := cs.Cfg
	dev := func(step string) string {
		if scripted && cs.Step == step {
			return cs.Dev
		}
		return ""
	}
	v := cfg.Variant
	ws := []string{"", "\n", "  \n\t"}[v%3]
	note := func(kind string) { lg.order = append(lg.order, kind) }
	checkPipeline := func(at string) {
		if lg.deviated {
			return // after a deviation the client may legitimately be closing the stream
		}
		if pc.Pending(time.Millisecond) {
			lg.pipelined = append(lg.pipelined, at)
		}
	}
	// reply sends the OK reply of a step, or the scripted deviation. After a deviation the peer keeps playing the
	// lenient rest of the script (a client that wrongly accepts the deviation must be able to finish), but closes
	// the connection when the client stays silent. Returns true when the connection is finished.
	reply := func(step, ok string, special map[string]string) bool {
		d := dev(step)
		if d == "" {
			pc.Send(ok)
			lg.reached = append(lg.reached, step)
			return false
		}
		lg.deviated, lg.applicable = true, true
		pc.idle = 400 * time.Millisecond
		if sp, has := special[d]; has {
			pc.Send(sp)
			return false
		}
		switch d {
		case "stream-error":
			pc.Send("<stream:error><host-unknown xmlns='urn:ietf:params:xml:ns:xmpp-streams'/></stream:error></stream:stream>")
		case "unexpected-stanza":
			pc.Send("<message from='x@y'><body>surprise</body></message>")
		case "unexpected-nonza":
			if strings.Contains(ok, "<success") {
				pc.Send("<proceed xmlns='" + vfNSTLS + "'/>")
			} else {
				pc.Send("<success xmlns='" + vfNSSASL + "'/>")
			}
		case "malformed":
			pc.Send("<iq type='result' <<< &&& >")
		case "malformed-repairable":
			// the right reply, spelt the way HTML would tolerate: attribute values without quotes. Not well-formed XML,
			// hence not the reply - however easy it is to guess what was meant.
			pc.Send(vfUnquoteAttrs(ok))
		case "garbage":
			pc.Send("HTTP/1.1 400 Bad Request\r\n\r\n")
		case "truncated-close":
			if len(ok) > 6 {
				pc.Send(ok[:len(ok)/2])
			}
			pc.Close()
			lg.devDone = true
			return true
		case "fin":
			pc.Close()
			lg.devDone = true
			return true
		case "rst":
			pc.RST()
			lg.devDone = true
			return true
		}
		return false
	}
	defer func() {
		if lg.deviated {
			lg.devDone = true
		}
	}()
	hdr := func(id string) string {
		return vfStreamHeader("jabber:client", id, "localhost") + ws
	}
	neg := &vfNeg{TLSRequired: cfg.TLS == "required", Mechs: []string{"PLAIN"}, Bind: true, Session: cfg.Session, SM: cfg.SMAdv}
	if cfg.TLS != "absent" {
		neg.TLS = tlsCfg
	}
	if v%2 == 1 {
		neg.ExtraFeatures = "<c xmlns='http://jabber.org/protocol/caps' hash='sha-1' node='n' ver='v'/><unknown xmlns='urn:vf:feature'><deep/></unknown>"
		neg.Mechs = []string{"SCRAM-SHA-1", "PLAIN", "X-VF"}
	}
	notFeatures := map[string]string{"not-features": "<iq type='result' id='x'/>"}
	// next returns the client's next request, or false when the client is gone / silent
	next := func(what string) (vfElem, bool) {
		e, err := pc.Next()
		if err != nil || e.Kind != "elem" {
			if !lg.deviated {
				lg.scriptErr = "waiting for " + what + ": client sent " + e.Kind + " " + e.Local
			}
			if e.Kind == "close" {
				pc.Send("</stream:stream>")
			}
			return e, false
		}
		return e, true
	}
	expectStream := func(what string) bool {
		e, err := pc.Next()
		if err != nil || e.Kind != "stream" {
			if !lg.deviated {
				lg.scriptErr = what + ": client sent " + e.Kind + " " + e.Local
			}
			if e.Kind == "close" {
				pc.Send("</stream:stream>")
			}
			return false
		}
		note("stream")
		return true
	}
	// S0 / S1
	if !expectStream("S0") {
		return
	}
	if reply("S0-header", hdr("s0"), map[string]string{"wrong-root": "<?xml version='1.0'?><foo xmlns='urn:vf:nostream'>"}) {
		return
	}
	if reply("S1-features", neg.features("pre-tls")+ws, notFeatures) {
		return
	}
	e, ok := next("starttls or auth")
	if !ok {
		return
	}
	if e.Is(vfNSTLS, "starttls") {
		note("starttls")
		checkPipeline("S2-starttls")
		if reply("S2-starttls", "<proceed xmlns='"+vfNSTLS+"'/>", map[string]string{"fail": "<failure xmlns='" + vfNSTLS + "'/>"}) {
			return
		}
		if dev("S2-starttls") != "" {
			// no TLS will follow a deviant reply: the lenient rest of the script continues in clear
			if e, ok = next("auth"); !ok {
				return
			}
		} else {
			if d := dev("S3-tls"); d != "" {
				lg.deviated, lg.applicable = true, true
				if d == "garbage-instead-of-handshake" {
					pc.Send("this is not a TLS record at all, sorry\n")
					time.Sleep(5 * time.Millisecond)
				}
				pc.Close()
				return
			}
			if err := pc.StartTLS(tlsCfg); err != nil {
				lg.scriptErr = "TLS handshake: " + err.Error()
				return
			}
			lg.reached = append(lg.reached, "S3-tls")
			if !expectStream("S4") {
				return
			}
			if dev("S4-secure-restart") != "" {
				pc.Send(hdr("s1"))
			}
			if reply("S4-secure-restart", hdr("s1")+neg.features("pre-auth"), notFeatures) {
				return
			}
			if e, ok = next("auth"); !ok {
				return
			}
		}
	}
	if !e.Is(vfNSSASL, "auth") {
		if !lg.deviated {
			lg.scriptErr = "expected auth, got " + e.Local
		}
		vfC03Finish(pc, e)
		return
	}
	note("auth")
	checkPipeline("S5-sasl")
	if reply("S5-sasl", "<success xmlns='"+vfNSSASL+"'/>"+ws, map[string]string{
		"fail":         "<failure xmlns='" + vfNSSASL + "'><not-authorized/></failure>",
		"fail-aborted": "<failure xmlns='" + vfNSSASL + "'><aborted/><text>no</text></failure>"}) {
		return
	}
	pc.Restart()
	if !expectStream("S6") {
		return
	}
	if dev("S6-restart") != "" {
		pc.Send(hdr("s2"))
	}
	if reply("S6-restart", hdr("s2")+neg.features("post-auth")+ws, notFeatures) {
		return
	}
	if e, ok = next("resume or bind"); !ok {
		return
	}
	if e.Is(vfNSSM, "resume") {
		note("resume")
		checkPipeline("S7-resume")
		okr := fmt.Sprintf("<resumed xmlns='%s' previd='%s' h='0'/>", vfNSSM, e.Attrs["previd"])
		if v%3 == 2 {
			// some servers leave the counter out when nothing was received: still a confirmation of that id
			okr = fmt.Sprintf("<resumed xmlns='%s' previd='%s'/>", vfNSSM, e.Attrs["previd"])
		}
		d := dev("S7-resume")
		switch d {
		case "refuse", "refuse-item-not-found":
			// a refusal is a legitimate answer: the client must fall back to a fresh bind
			lg.applicable = true
			if d == "refuse" {
				pc.Send("<failed xmlns='" + vfNSSM + "'/>")
			} else {
				pc.Send("<failed xmlns='" + vfNSSM + "' h='0'><item-not-found xmlns='urn:ietf:params:xml:ns:xmpp-stanzas'/></failed>")
			}
			lg.refused = true
		default:
			if reply("S7-resume", okr, map[string]string{
				"other-id":      fmt.Sprintf("<resumed xmlns='%s' previd='%s-x' h='0'/>", vfNSSM, e.Attrs["previd"]),
				"no-id":         fmt.Sprintf("<resumed xmlns='%s' h='0'/>", vfNSSM), // names no session at all
				"empty-id":      fmt.Sprintf("<resumed xmlns='%s' previd='' h='0'/>", vfNSSM),
				"id-prefix":     fmt.Sprintf("<resumed xmlns='%s' previd='%s' h='0'/>", vfNSSM, e.Attrs["previd"][:len(e.Attrs["previd"])/2]),
				"id-other-case": fmt.Sprintf("<resumed xmlns='%s' previd='%s' h='0'/>", vfNSSM, vfSwapCase(e.Attrs["previd"])),
			}) {
				return
			}
			if d == "" {
				lg.resumedOK = true
				return
			}
		}
		if e, ok = next("bind"); !ok {
			return
		}
	}
	if !e.Is("", "iq") || e.Child("bind") == nil {
		if !lg.deviated {
			lg.scriptErr = "expected bind, got " + e.Local
		}
		vfC03Finish(pc, e)
		return
	}
	note("bind")
	checkPipeline("S8-bind")
	id := e.Attrs["id"]
	okb := fmt.Sprintf("<iq type='result' id='%s'>%s<bind xmlns='%s'><jid>test@localhost/r%d</jid></bind></iq>", id, ws, vfNSBind, v)
	if reply("S8-bind", okb, map[string]string{
		"fail":                fmt.Sprintf("<iq type='error' id='%s'><error type='cancel'><conflict xmlns='urn:ietf:params:xml:ns:xmpp-stanzas'/></error></iq>", id),
		"fail-echo-payload":   fmt.Sprintf("<iq type='error' id='%s'><bind xmlns='%s'><resource>r</resource></bind><error type='modify'><bad-request xmlns='urn:ietf:params:xml:ns:xmpp-stanzas'/></error></iq>", id, vfNSBind),
		"iq-foreign-id":       fmt.Sprintf("<iq type='result' id='%s-other'><bind xmlns='%s'><jid>test@localhost/x</jid></bind></iq>", id, vfNSBind),
		"payload-in-message":  fmt.Sprintf("<message id='%s'><bind xmlns='%s'><jid>test@localhost/x</jid></bind></message>", id, vfNSBind),
		"result-without-bind": fmt.Sprintf("<iq type='result' id='%s'/>", id),
		"type-get":            fmt.Sprintf("<iq type='get' id='%s'><bind xmlns='%s'><jid>test@localhost/x</jid></bind></iq>", id, vfNSBind)}) {
		return
	}
	if dev("S8-bind") == "" {
		lg.bindOK = true
	}
	if cfg.Session == "mandatory" {
		if e, ok = next("session"); !ok {
			return
		}
		if !e.Is("", "iq") || e.Child("session") == nil {
			if !lg.deviated {
				lg.scriptErr = "expected session iq, got " + e.Local
			}
			vfC03Finish(pc, e)
			return
		}
		note("session")
		checkPipeline("S9-session")
		sid := e.Attrs["id"]
		if reply("S9-session", fmt.Sprintf("<iq type='result' id='%s'/>", sid), map[string]string{
			"fail":             fmt.Sprintf("<iq type='error' id='%s'><error type='wait'><internal-server-error xmlns='urn:ietf:params:xml:ns:xmpp-stanzas'/></error></iq>", sid),
			"iq-foreign-id":    fmt.Sprintf("<iq type='result' id='%s-other'/>", sid),
			"presence-instead": "<presence from='x@y'/>"}) {
			return
		}
	}
	if cfg.SMReq && cfg.SMAdv {
		if e, ok = next("enable"); !ok {
			return
		}
		if !e.Is(vfNSSM, "enable") {
			if !lg.deviated {
				lg.scriptErr = "expected enable, got " + e.Local
			}
			vfC03Finish(pc, e)
			return
		}
		note("enable")
		checkPipeline("S10-enable")
		if reply("S10-enable", fmt.Sprintf("<enabled xmlns='%s' id='sm-%d' resume='true'/>", vfNSSM, pc.N), map[string]string{
			"fail":                "<failed xmlns='" + vfNSSM + "'/>",
			"fail-with-condition": "<failed xmlns='" + vfNSSM + "'><unexpected-request xmlns='urn:ietf:params:xml:ns:xmpp-stanzas'/></failed>"}) {
			return
		}
	}
}

// vfC03Finish answers a stream close so that the client's Disconnect does not wait for its timeout.
func vfC03Finish(pc *vfPeerConn, e vfElem) {
	if e.Kind == "close" {
		pc.Send("</stream:stream>")
	}
	for {
		e, err := pc.Next()
		if err != nil {
			return
		}
		if e.Kind == "close" {
			pc.Send("</stream:stream>")
		}
	}
}

func vfC03Run(run *vfkit.Run, cs *vfC03Case) {
	pki := vfGetPKI()
	srvTLS := pki.ServerConfig("valid", "localhost")
	cfg := cs.Cfg
	logs := []*vfC03PeerLog{{}, {}}
	scriptedConn := 0
	if cfg.Resumable || cfg.PriorFailed {
		scriptedConn = 1
	}
	firstUp := make(chan struct{})
	var cutFirst sync.Once
	release := make(chan struct{})
	peer := vfNewPeer(func(pc *vfPeerConn) {
		if pc.N > 1 {
			return
		}
		if pc.N == scriptedConn {
			vfC03Play(pc, cs, true, srvTLS, logs[pc.N])
			if !logs[pc.N].devDone {
				// success path: read whatever follows (initial presence, stream close) until the client goes away.
				// A further negotiation request (session, enable, resume, starttls, bind, auth) was not solicited by
				// anything this server offered: the client left the protocol order.
				for {
					e, err := pc.Next()
					if err != nil {
						return
					}
					if e.Kind == "close" {
						pc.Send("</stream:stream>")
						continue
					}
					if e.Is(vfNSSM, "enable") || e.Is(vfNSSM, "resume") || e.Is(vfNSTLS, "starttls") || e.Is(vfNSSASL, "auth") ||
						(e.Is("", "iq") && (e.Child("session") != nil || e.Child("bind") != nil)) {
						if logs[pc.N].unsolicited == "" {
							logs[pc.N].unsolicited = e.Local
							if c := e.Child("session"); c != nil {
								logs[pc.N].unsolicited = "session"
							}
						}
						pc.Close() // a server would not answer; do not keep the client waiting
						return
					}
				}
			}
			return
		}
		if cfg.PriorFailed {
			// a server advertising everything, whose bind fails: the client's first attempt
			rich := &vfC03Case{Cfg: vfC03Cfg{Insecure: true, TLS: "absent", SMReq: cfg.SMReq, SMAdv: true, Session: "mandatory"}, Step: "S8-bind", Dev: "fail"}
			vfC03Play(pc, rich, true, srvTLS, logs[0])
			for {
				e, err := pc.Next()
				if err != nil {
					return
				}
				if e.Kind == "close" {
					pc.Send("</stream:stream>")
				}
			}
		}
		// first, clean session that leaves resumable state behind
		first := &vfC03Case{Cfg: cfg}
		first.Cfg.SMReq, first.Cfg.SMAdv = true, true
		vfC03Play(pc, first, false, srvTLS, logs[0])
		if e, err := pc.Next(); err == nil && e.Is("", "presence") { // initial presence
			cutFirst.Do(func() { close(firstUp) })
		} else {
			cutFirst.Do(func() { close(firstUp) })
		}
		<-release
		pc.Close()
	})
	defer peer.Stop()
	jid := "test@localhost"
	if cfg.Resource {
		jid += "/res"
	}
	c, obs, err := vfNewClient(vfClientOpt{Addr: peer.Addr(), Jid: jid, Insecure: cfg.Insecure, SM: cfg.SMReq || cfg.Resumable, SMResume: true,
		TLSConfig: &tls.Config{RootCAs: pki.Pool}, Domain: "localhost"}, nil)
	if err != nil {
		run.Inconclusive("newclient")
		return
	}
	tag := cs.Step + ":" + cs.Dev
	if cs.Step == "" {
		tag = "no-deviation"
	}
	call := func(f func() error) (error, bool) {
		done := make(chan error, 1)
		go func() {
			defer func() {
				if p := recover(); p != nil {
					done <- fmt.Errorf("PANIC: %v", p)
				}
			}()
			done <- f()
		}()
		select {
		case e := <-done:
			return e, true
		case <-time.After(30 * time.Second):
			return nil, false
		}
	}
	var cerr error
	var returned bool
	if cfg.PriorFailed {
		close(release)
		e0, ok := call(c.Connect)
		if !ok || e0 == nil {
			run.Inconclusive("prior-attempt-did-not-fail")
			return
		}
		cerr, returned = call(c.Connect)
	} else if cfg.Resumable {
		e0, ok := call(c.Connect)
		if !ok || e0 != nil {
			close(release)
			run.Inconclusive("first-session-failed")
			run.Note(fmt.Sprintf("%v %v %s", e0, ok, logs[0].scriptErr))
			return
		}
		<-firstUp
		close(release)
		if !vfWaitUntil(10*time.Second, func() bool { return obs.CountState(StateDisconnected) >= 1 }) {
			run.Inconclusive("no-disconnect-after-first")
			return
		}
		cerr, returned = call(c.Resume)
	} else {
		close(release)
		cerr, returned = call(c.Connect)
	}
	lg := logs[scriptedConn]
	if !returned {
		var dump []string
		for _, g := range vfLibGoroutines("") {
			if strings.Contains(g.Text, "Connect") || strings.Contains(g.Text, "Resume") || strings.Contains(g.Text, "NewSession") {
				dump = append(dump, vfClip2(g.Text, 1500))
			}
		}
		if lg.devDone || lg.scriptErr != "" {
			run.Violation("C03/hang:"+tag, "Connect/Resume did not return 30s after the peer had finished its script and closed or answered the stream close", map[string]interface{}{"case": cs, "goroutines": dump})
		} else {
			run.Inconclusive("watchdog:" + tag)
			run.Note(map[string]interface{}{"watchdog": tag, "case": cs, "log": fmt.Sprintf("%+v", *lg), "goroutines": dump})
		}
		return
	}
	defer func() { go c.Disconnect() }()
	if cerr != nil && strings.HasPrefix(cerr.Error(), "PANIC") {
		run.Violation("C03/panic:"+tag, cerr.Error(), cs)
		return
	}
	if cs.Step != "" && !lg.applicable {
		run.Count("deviation_point_not_reached", 1)
		return // this configuration never reaches the step (e.g. no STARTTLS): nothing to decide
	}
	if lg.unsolicited != "" && !lg.deviated {
		run.Violation("C03/request-for-feature-not-offered:"+lg.unsolicited, fmt.Sprintf("the server completed every step it offered (%v); the client then sent an unsolicited <%s> request (order so far %s); Connect returned %v", lg.reached, lg.unsolicited, strings.Join(lg.order, ","), cerr), cs)
		return
	}
	tlsPossible := cfg.TLS != "absent"
	expectOK := !lg.deviated && !lg.refused && (tlsPossible || cfg.Insecure) && lg.scriptErr == ""
	if lg.scriptErr != "" && !lg.deviated && (tlsPossible || cfg.Insecure) {
		// the client left the expected order without any deviation by the peer
		run.Violation("C03/client-left-protocol-order:"+tag, "peer followed the successful script but the client "+lg.scriptErr+"; order so far "+strings.Join(lg.order, ","), cs)
		return
	}
	established := obs.CountState(StateSessionEstablished)
	wantEst := 0
	if cfg.Resumable {
		wantEst = 1
	}
	if cfg.PriorFailed {
		run.Count("retries_after_failed_attempt", 1)
	}
	if expectOK {
		if cerr != nil {
			run.Violation("C03/failure-on-complete-negotiation:"+tag, fmt.Sprintf("server completed every mandatory step (%v) but connecting returned %v", lg.reached, cerr), cs)
			return
		}
		if established != wantEst+1 {
			run.Violation("C03/established-not-announced", fmt.Sprintf("success but %d SessionEstablished events", established), cs)
			return
		}
		run.Count("successful_negotiations", 1)
	} else {
		if cerr == nil {
			// a refused resumption may legitimately end in a fresh bind
			if lg.refused && lg.bindOK {
				run.Count("refused_resume_then_bind", 1)
			} else {
				run.Violation("C03/success-despite:"+tag, fmt.Sprintf("server deviated at %s with %q (steps completed: %v) but connecting returned nil", cs.Step, cs.Dev, lg.reached), cs)
				return
			}
		} else if established != wantEst {
			run.Violation("C03/established-announced-on-failure:"+tag, fmt.Sprintf("connecting failed (%v) but SessionEstablished was announced %d times", cerr, established-wantEst), cs)
			return
		}
		run.Count("failed_negotiations", 1)
	}
	if len(lg.pipelined) > 0 {
		run.Violation("C03/request-sent-before-confirmation:"+lg.pipelined[0], fmt.Sprintf("further client bytes were already pending when the peer was about to answer %v", lg.pipelined), cs)
		return
	}
	// RFC 6120 order of the client's own requests
	if msg := vfC03Order(lg.order); msg != "" {
		run.Violation("C03/request-order", msg+": "+strings.Join(lg.order, ","), cs)
		return
	}
	run.Count("peer_steps_completed", int64(len(lg.reached)))
	run.Nontrivial(fmt.Sprintf("%+v", *cs))
}

func vfClip2(s string, n int) string {
	if len(s) > n {
		return s[:n]
	}
	return s
}

// vfC03Order checks that the sequence is a prefix of: stream [starttls stream] auth stream (resume [bind ...] | bind [session] [enable]).
func vfC03Order(o []string) string {
	i := 0
	next := func(k string) bool {
		if i < len(o) && o[i] == k {
			i++
			return true
		}
		return false
	}
	if !next("stream") {
		if len(o) == 0 {
			return ""
		}
		return "first element is not the stream header"
	}
	if next("starttls") {
		if i < len(o) && !next("stream") {
			return "no stream restart after starttls"
		}
	}
	if i == len(o) {
		return ""
	}
	if !next("auth") {
		return "expected auth"
	}
	if i == len(o) {
		return ""
	}
	if !next("stream") {
		return "no stream restart after auth"
	}
	next("resume")
	if i == len(o) {
		return ""
	}
	if !next("bind") {
		return "expected bind"
	}
	next("session")
	next("enable")
	if i != len(o) {
		return "unexpected request " + o[i]
	}
	return ""
}

func vfC03Configs(r *rand.Rand, n int) []vfC03Cfg {
	var out []vfC03Cfg
	// a fixed backbone that covers every factor level, then random ones
	out = append(out,
		vfC03Cfg{Insecure: true, TLS: "absent", Session: ""},
		vfC03Cfg{Insecure: false, TLS: "required", Resource: true, SMReq: true, SMAdv: true, Session: "mandatory"},
		vfC03Cfg{Insecure: true, TLS: "offered", SMReq: true, SMAdv: false, Session: "optional", Variant: 1},
		vfC03Cfg{Insecure: true, TLS: "absent", Resumable: true, SMReq: true, SMAdv: true, Variant: 2},
		vfC03Cfg{Insecure: false, TLS: "offered", Resource: true, SMReq: false, SMAdv: true, Session: "mandatory", Variant: 3},
		vfC03Cfg{Insecure: false, TLS: "absent", Variant: 4},
		vfC03Cfg{Insecure: true, TLS: "absent", PriorFailed: true, Session: "", Variant: 5},
	)
	for len(out) < n {
		c := vfC03Cfg{Insecure: r.Intn(2) == 0, TLS: []string{"absent", "offered", "required"}[r.Intn(3)], Resource: r.Intn(2) == 0, SMReq: r.Intn(2) == 0,
			SMAdv: r.Intn(2) == 0, Session: []string{"", "optional", "mandatory"}[r.Intn(3)], Resumable: r.Intn(4) == 0, Variant: r.Intn(6)}
		if c.Resumable {
			c.TLS, c.Insecure = "absent", true // transport security across reconnects is C04's subject
			c.SMReq, c.SMAdv = true, true
		} else if r.Intn(5) == 0 {
			c.PriorFailed = true
			c.TLS, c.Insecure = "absent", true
		}
		out = append(out, c)
	}
	return out[:n]
}

func TestVf_C03(t *testing.T) {
	run := vfkit.Open("C03", "every single-deviation server script: step in {header, features, starttls reply, TLS handshake, secure restart, SASL reply, restart, resume reply, bind reply, session reply, enable reply} "+
		"x deviation in the step's alphabet {failure element(s), stream error, unexpected stanza / nonza, foreign id, payload in a message, malformed XML, truncated then closed, FIN, RST} "+
		"x configuration classes (insecure, TLS absent/offered/required, resource, SM requested/advertised, session absent/optional/mandatory, resumable state, cosmetic OK variants) plus the deviation-free script per configuration; "+
		"oracle: err==nil iff no deviation (a refused resume may end in a bind), SessionEstablished iff success, request order, no pipelining, return in bounded steps; "+
		"non-trivial = distinct (configuration, step, deviation) that reached its deviation point")
	defer run.Close()
	var rc vfC03Case
	if run.ReplayCase(&rc) {
		run.Case(rc)
		vfC03Run(run, &rc)
		return
	}
	r := vfkit.Rand(3)
	cfgs := vfC03Configs(r, vfkit.Pick(7, 40))
	var cases []*vfC03Case
	for _, cfg := range cfgs {
		cases = append(cases, &vfC03Case{Cfg: cfg})
		for _, st := range vfC03Steps {
			for _, d := range vfC03Devs(st) {
				cases = append(cases, &vfC03Case{Cfg: cfg, Step: st, Dev: d})
			}
		}
	}
	run.Extra("configurations", len(cfgs))
	run.Extra("scripts", len(cases))
	var wg sync.WaitGroup
	workers := 16
	for wk := 0; wk < workers; wk++ {
		wg.Add(1)
		go func(wk int) {
			defer wg.Done()
			for i := wk; i < len(cases) && !run.Enough(); i += workers {
				run.Case(cases[i])
				if i < 3 {
					run.Sample(cases[i])
				}
				vfC03Run(run, cases[i])
			}
		}(wk)
	}
	wg.Wait()
	run.Exhaustive(true)
	if run.NViolations() > 0 {
		t.Fail()
	}
}

func vfSwapCase(x string) string {
	b := []byte(x)
	for i, c := range b {
		switch {
		case c >= 'a' && c <= 'z':
			b[i] = c - 32
		case c >= 'A' && c <= 'Z':
			b[i] = c + 32
		}
	}
	return string(b)
}

var vfQuotedAttr = regexp.MustCompile(`=(['"])([^'" <>=]+)['"]`)

// vfUnquoteAttrs strips the quotes of every attribute value that contains nothing a lenient parser would stop at.
func vfUnquoteAttrs(x string) string {
	x = vfQuotedAttr.ReplaceAllString(x, "=$2 ")
	return x
}

package xmpp

// C18 — keepalive: sent at the interval, closes a dead connection, stops with the session.

import (
	"crypto/tls"
	"encoding/xml"
	"errors"
	"fmt"
	"gosrc.io/xmpp/stanza"
	"io"
	"net"
	"os"
	"strings"
	"sync"
	"sync/atomic"
	"syscall"
	"testing"
	"time"

	"vfkit"
)

type vfStubTransport struct {
	mu             sync.Mutex
	pings          []time.Time   // start of every Ping
	failAt         int           // 1-based index of the Ping that fails, 0 = never
	failErr        error         // the error that Ping returns
	gate           chan struct{} // when non-nil every Ping waits for a token
	closes         int32
	afterQuitPings int32
	quitClosed     int32
}

func (s *vfStubTransport) Connect() (string, error)     { return "", nil }
func (s *vfStubTransport) DoesStartTLS() bool           { return false }
func (s *vfStubTransport) StartTLS() error              { return nil }
func (s *vfStubTransport) LogTraffic(io.Writer)         {}
func (s *vfStubTransport) StartStream() (string, error) { return "", nil }
func (s *vfStubTransport) GetDecoder() *xml.Decoder     { return nil }
func (s *vfStubTransport) IsSecure() bool               { return false }
func (s *vfStubTransport) Read(p []byte) (int, error)   { return 0, io.EOF }
func (s *vfStubTransport) Write(p []byte) (int, error)  { return len(p), nil }
func (s *vfStubTransport) ReceivedStreamClose()         {}
func (s *vfStubTransport) Close() error {
	atomic.AddInt32(&s.closes, 1)
	return nil
}
func (s *vfStubTransport) Ping() error {
	s.mu.Lock()
	s.pings = append(s.pings, time.Now())
	n := len(s.pings)
	g := s.gate
	s.mu.Unlock()
	if atomic.LoadInt32(&s.quitClosed) == 2 {
		atomic.AddInt32(&s.afterQuitPings, 1)
	}
	if g != nil {
		<-g
	}
	if s.failAt != 0 && n == s.failAt {
		if s.failErr != nil {
			return s.failErr
		}
		return errors.New("vf: keepalive write failed")
	}
	return nil
}
func (s *vfStubTransport) count() int { s.mu.Lock(); defer s.mu.Unlock(); return len(s.pings) }

type vfC18Case struct {
	Mode     string `json:"mode"` // cadence | fail | stop | e2e | clean-close
	Interval int    `json:"interval_us"`
	K        int    `json:"k"`
	Err      string `json:"err,omitempty"` // fail: generic | timeout | eof | epipe
	// e2e variants: "" (Resume called by the test after the loss), "in-handler" (Resume called synchronously inside the
	// Disconnected event handler, as a StreamManager does), "tls" (both sessions negotiate STARTTLS: the keepalive
	// must travel inside TLS and must not break the session)
	Variant string `json:"variant,omitempty"`
}

// vfTimeoutErr is a net.Error whose Timeout() is true (what a write deadline or a websocket ping deadline gives)
type vfTimeoutErr struct{}

func (vfTimeoutErr) Error() string   { return "vf: i/o timeout" }
func (vfTimeoutErr) Timeout() bool   { return true }
func (vfTimeoutErr) Temporary() bool { return true }

func vfC18Err(kind string) error {
	switch kind {
	case "timeout":
		return fmt.Errorf("failed to ping: %w", vfTimeoutErr{})
	case "deadline":
		return fmt.Errorf("failed to ping: %w", os.ErrDeadlineExceeded)
	case "eof":
		return io.EOF
	case "epipe":
		return &net.OpError{Op: "write", Net: "tcp", Err: syscall.EPIPE}
	}
	return errors.New("vf: keepalive write failed")
}

func vfC18Run(run *vfkit.Run, cs *vfC18Case) {
	iv := time.Duration(cs.Interval) * time.Microsecond
	switch cs.Mode {
	case "cadence":
		st := &vfStubTransport{}
		quit := make(chan struct{})
		done := make(chan struct{})
		start := time.Now()
		go func() { keepalive(st, iv, quit); close(done) }()
		want := cs.K
		ok := vfWaitUntil(time.Duration(80*want)*iv+5*time.Second, func() bool { return st.count() >= want })
		close(quit)
		st.mu.Lock()
		pings := append([]time.Time(nil), st.pings...)
		st.mu.Unlock()
		for k, t0 := range pings {
			if t0.Sub(start) < time.Duration(k+1)*iv {
				run.Violation("C18/keepalive-early", fmt.Sprintf("interval %v: ping #%d started %v after the start, earlier than %d intervals", iv, k+1, t0.Sub(start), k+1), cs)
				return
			}
		}
		if !ok {
			if len(pings) < want/4 {
				run.Violation("C18/keepalive-not-sent", fmt.Sprintf("interval %v: %d pings in %v (expected %d)", iv, len(pings), time.Since(start), want), cs)
			} else {
				run.Inconclusive("cadence-slow-machine")
			}
			return
		}
		select {
		case <-done:
		case <-time.After(5 * time.Second):
			run.Violation("C18/keepalive-does-not-stop", "goroutine still running 5s after quit was closed", cs)
			return
		}
		run.Count("pings_timed", int64(len(pings)))
	case "fail":
		st := &vfStubTransport{failAt: cs.K, failErr: vfC18Err(cs.Err)}
		quit := make(chan struct{})
		done := make(chan struct{})
		go func() { keepalive(st, iv, quit); close(done) }()
		select {
		case <-done:
		case <-time.After(time.Duration(200*cs.K)*iv + 10*time.Second):
			close(quit)
			if st.count() >= cs.K {
				run.Violation("C18/failed-keepalive-ignored:"+cs.Err, fmt.Sprintf("ping #%d failed with a %s error (%d pings so far) but the keepalive goroutine keeps running and never closed the connection", cs.K, cs.Err, st.count()), cs)
			} else {
				run.Inconclusive("fail-slow-machine")
			}
			return
		}
		close(quit)
		if n := st.count(); n != cs.K {
			run.Violation("C18/pings-after-failure", fmt.Sprintf("ping #%d failed; %d pings were made", cs.K, n), cs)
			return
		}
		if c := atomic.LoadInt32(&st.closes); c != 1 {
			run.Violation("C18/connection-not-closed-on-failure", fmt.Sprintf("ping #%d failed; Close was called %d times (want exactly once)", cs.K, c), cs)
			return
		}
		run.Count("failure_points_checked", 1)
	case "stop":
		// quit is closed while a ping is in flight (gate) or between ticks
		st := &vfStubTransport{gate: make(chan struct{})}
		quit := make(chan struct{})
		done := make(chan struct{})
		go func() { keepalive(st, iv, quit); close(done) }()
		for i := 0; i < cs.K; i++ { // let K pings through
			if !vfWaitUntil(10*time.Second, func() bool { return st.count() >= i+1 }) {
				run.Inconclusive("stop-slow-machine")
				close(quit)
				close(st.gate)
				return
			}
			st.gate <- struct{}{}
		}
		inflight := vfWaitUntil(10*time.Second, func() bool { return st.count() >= cs.K+1 })
		close(quit)
		atomic.StoreInt32(&st.quitClosed, 1)
		before := st.count()
		if inflight {
			st.gate <- struct{}{} // release the one in flight
		}
		atomic.StoreInt32(&st.quitClosed, 2)
		close(st.gate) // anything that still pings passes immediately and is counted
		select {
		case <-done:
		case <-time.After(5 * time.Second):
			run.Violation("C18/keepalive-does-not-stop", "goroutine still running 5s after quit was closed", cs)
			return
		}
		// after quit was closed a pending tick may still win the select, once or (rarely) twice; a loop that
		// ignores quit would go on for ever and is caught above
		if extra := st.count() - before; extra > 3 {
			run.Violation("C18/keepalive-after-session-end", fmt.Sprintf("%d pings began after quit was closed", extra), cs)
			return
		}
		if c := atomic.LoadInt32(&st.closes); c != 0 {
			run.Violation("C18/close-on-normal-stop", fmt.Sprintf("Close called %d times on a normal stop", c), cs)
			return
		}
		run.Count("stop_points_checked", 1)
	case "clean-close":
		// the session ends with an orderly stream close (Disconnect answered by the server): the keepalive must stop too
		peer := vfNewPeer(func(pc *vfPeerConn) {
			if _, err := pc.Negotiate(&vfNeg{Bind: true, ExpectPresence: true}); err != nil {
				return
			}
			for {
				e, err := pc.Next()
				if err != nil {
					return
				}
				if e.Kind == "close" {
					pc.Send("</stream:stream>")
				}
			}
		})
		defer peer.Stop()
		// a long interval: a keepalive loop that was not told to stop will not even notice the closed socket for a
		// minute, whereas a correct one is released the moment the receive loop returns
		c, _, err := vfNewClient(vfClientOpt{Addr: peer.Addr(), Insecure: true, Keepalive: time.Minute}, nil)
		if err != nil {
			run.Inconclusive("newclient")
			return
		}
		if err := c.Connect(); err != nil {
			run.Inconclusive("connect")
			return
		}
		time.Sleep(time.Duration(cs.K) * iv / 2)
		c.Disconnect()
		var left []string
		if !vfWaitUntil(8*time.Second, func() bool { left = vfClientGoroutines(c); return len(left) == 0 }) {
			what := "goroutine"
			if strings.Contains(left[0], "keepalive(") {
				what = "keepalive"
			}
			run.Violation("C18/keepalive-survives-clean-close:"+what, fmt.Sprintf("the session was closed in an orderly way (Disconnect returned), yet %d goroutines of this client are still running 8s later", len(left)), map[string]interface{}{"case": cs, "goroutines": left})
			return
		}
		run.Count("clean_closes_checked", 1)
	case "half-open":
		// the outbound direction dies silently (no FIN, no RST, nothing arrives): only the keepalive can notice.
		// It must close the connection, so that the receive loop fails and the loss is reported - once.
		silent := make(chan struct{})
		afterResume := cs.Variant == "after-resume" // the half-open connection is the client's second one
		peer := vfNewPeer(func(pc *vfPeerConn) {
			if _, err := pc.Negotiate(&vfNeg{Bind: true, ExpectPresence: pc.N == 0}); err != nil {
				return
			}
			if afterResume && pc.N == 0 {
				time.Sleep(2 * iv)
				pc.Close()
				return
			}
			<-silent // a peer that neither sends nor closes, whatever happens
		})
		defer peer.Stop()
		defer close(silent)
		c, obs, err := vfNewClient(vfClientOpt{Addr: peer.Addr(), Insecure: true, Keepalive: iv}, nil)
		if err != nil {
			run.Inconclusive("newclient")
			return
		}
		if err := c.Connect(); err != nil {
			run.Inconclusive("connect")
			return
		}
		defer func() { go c.Disconnect() }()
		base := 0
		if afterResume {
			if !vfWaitUntil(15*time.Second, func() bool { return obs.CountState(StateDisconnected) >= 1 }) {
				run.Inconclusive("no-loss")
				return
			}
			if err := c.Resume(); err != nil {
				run.Inconclusive("resume")
				return
			}
			base = 1
		}
		tc, ok := c.transport.(*XMPPTransport).conn.(*net.TCPConn)
		if !ok {
			run.Inconclusive("not-tcp")
			return
		}
		tc.CloseWrite() // from now on every write fails; reads would block for ever
		reported := vfWaitUntil(20*time.Second, func() bool {
			return len(obs.Errors()) >= base+1 && obs.CountState(StateDisconnected) >= base+1
		})
		if !reported {
			run.Violation("C18/dead-connection-not-closed-by-keepalive", fmt.Sprintf("writes fail since 20s (keepalive every %v), yet the loss was not reported: %d error callbacks, %d Disconnected events, receive loop alive: %v",
				iv, len(obs.Errors()), obs.CountState(StateDisconnected), vfClientHasRecv(c)), cs)
			return
		}
		var left []string
		if !vfWaitUntil(10*time.Second, func() bool { left = vfClientGoroutines(c); return len(left) == 0 }) {
			run.Violation("C18/goroutine-left-after-keepalive-detected-loss", fmt.Sprintf("%d goroutines of this client are still running", len(left)), map[string]interface{}{"case": cs, "goroutines": left})
			return
		}
		if n, d := len(obs.Errors()), obs.CountState(StateDisconnected); n != base+1 || d != base+1 {
			run.Violation("C18/keepalive-detected-loss-reported-more-than-once", fmt.Sprintf("%d error callbacks, %d Disconnected events", n, d), cs)
			return
		}
		run.Count("half_open_losses_detected", 1)
		if afterResume {
			run.Count("half_open_losses_detected_after_resume", 1)
		}
	case "outage":
		// The server is gone for a while (connections refused) and the application - like a StreamManager - retries
		// from inside the Disconnected handler, while the keepalive interval is far shorter than the outage. The
		// keepalive of the lost session has nothing to ping during that time and must not bring the process down.
		up := make(chan struct{}, 4)
		hold := make(chan struct{})
		var first *vfPeerConn
		peer := vfNewPeer(func(pc *vfPeerConn) {
			if _, err := pc.Negotiate(&vfNeg{Bind: true, ExpectPresence: pc.N == 0}); err != nil {
				return
			}
			go func() {
				for {
					if _, err := pc.Next(); err != nil {
						return
					}
				}
			}()
			if pc.N == 0 {
				first = pc
			}
			up <- struct{}{}
			<-hold
		})
		defer peer.Stop()
		defer close(hold)
		c, obs, err := vfNewClient(vfClientOpt{Addr: peer.Addr(), Insecure: true, Keepalive: iv}, nil)
		if err != nil {
			run.Inconclusive("newclient")
			return
		}
		var done int32
		c.SetHandler(func(e Event) error {
			obs.onEvent(e)
			if e.State.state == StateDisconnected && atomic.CompareAndSwapInt32(&done, 0, 1) {
				for try := 0; try < 400; try++ { // a retry loop without patience: the outage lasts many keepalive intervals
					if c.Resume() == nil {
						return nil
					}
					time.Sleep(2 * time.Millisecond)
				}
			}
			return nil
		})
		if err := c.Connect(); err != nil {
			run.Inconclusive("connect")
			return
		}
		defer func() { go c.Disconnect() }()
		<-up
		peer.CloseListener()
		first.RST()
		time.Sleep(time.Duration(cs.K) * iv) // the outage: K keepalive intervals
		if err := peer.Reopen(); err != nil {
			run.Inconclusive("reopen-failed")
			return
		}
		select {
		case <-up:
		case <-time.After(30 * time.Second):
			run.Inconclusive("no-session-after-outage")
			return
		}
		run.Count("outages_survived_with_a_short_keepalive", 1)
	case "ws-half-open":
		// the same over WebSocket: the server stops reading (so it answers no ping any more) without closing anything.
		// Only the keepalive can notice - its ping runs into the transport's ping timeout - and it must close the
		// connection so that the loss is reported.
		hold := make(chan struct{})
		wp := vfNewWSPeer(nil, func(w *vfWSConn) {
			if err := vfWSNegotiate(w, false, true); err != nil {
				return
			}
			for {
				m, err := w.Read() // pings are answered while a read is under way
				if err != nil {
					return
				}
				if strings.Contains(m, "go-deaf") {
					<-hold // from now on nothing is read: pings stay unanswered; the connection stays open
					return
				}
			}
		})
		defer wp.Stop()
		defer close(hold)
		c, obs, err := vfNewClient(vfClientOpt{Addr: wp.URL(), Insecure: true, Keepalive: iv}, nil)
		if err != nil {
			run.Inconclusive("newclient")
			return
		}
		if err := c.Connect(); err != nil {
			run.Inconclusive("connect-ws")
			return
		}
		// the session works: keepalives are answered for a while
		time.Sleep(10 * iv)
		if obs.CountState(StateDisconnected) != 0 {
			run.Inconclusive("ws-session-lost-early")
			return
		}
		if err := c.SendRaw("<message id='go-deaf' to='server'><body>stop listening</body></message>"); err != nil {
			run.Inconclusive("ws-send")
			return
		}
		reported := vfWaitUntil(30*time.Second, func() bool {
			return len(obs.Errors()) >= 1 && obs.CountState(StateDisconnected) >= 1
		})
		if !reported {
			run.Violation("C18/dead-connection-not-closed-by-keepalive:websocket", fmt.Sprintf("the server answers no ping since 30s (keepalive every %v, ping timeout %v), yet the loss was not reported: %d error callbacks, %d Disconnected events", iv, pingTimeout, len(obs.Errors()), obs.CountState(StateDisconnected)), cs)
			return
		}
		run.Count("websocket_half_open_losses_detected", 1)
	case "ends-during-ping":
		// The session ends (the stream becomes unreadable; the socket stays open and writable) at a moment when the
		// keepalive is in the middle of a ping. Once that ping returns, the loop must notice that its session is over.
		sendGarbage, hold := make(chan struct{}), make(chan struct{})
		peer := vfNewPeer(func(pc *vfPeerConn) {
			if _, err := pc.Negotiate(&vfNeg{Bind: true, ExpectPresence: true}); err != nil {
				return
			}
			go func() {
				for {
					if _, err := pc.Next(); err != nil {
						return
					}
				}
			}()
			<-sendGarbage
			pc.Send("<<<not xml any more")
			<-hold
		})
		defer peer.Stop()
		defer close(hold)
		c, obs, err := vfNewClient(vfClientOpt{Addr: peer.Addr(), Insecure: true, Keepalive: iv}, nil)
		if err != nil {
			run.Inconclusive("newclient")
			return
		}
		hp := &vfHeldPing{Transport: c.transport, inPing: make(chan struct{}), release: make(chan struct{})}
		c.transport = hp
		if err := c.Connect(); err != nil {
			run.Inconclusive("connect")
			return
		}
		defer func() { go c.Disconnect() }()
		atomic.StoreInt32(&hp.armed, 1)
		select {
		case <-hp.inPing:
		case <-time.After(20 * time.Second):
			run.Inconclusive("no-ping-to-hold")
			return
		}
		close(sendGarbage)
		ended := vfWaitUntil(15*time.Second, func() bool { return obs.CountState(StateDisconnected) >= 1 && !vfClientHasRecv(c) })
		before := atomic.LoadInt32(&hp.pings)
		close(hp.release)
		if !ended {
			run.Inconclusive("session-did-not-end")
			return
		}
		// count what follows: a tick that was already pending may still fire once or twice; a loop that missed the end of
		// its session goes on for ever (10 further pings decide; fewer within a second under load decide nothing)
		vfWaitUntil(time.Duration(40)*iv+time.Second, func() bool { return atomic.LoadInt32(&hp.pings)-before >= 10 })
		if n := atomic.LoadInt32(&hp.pings) - before; n > 3 {
			run.Violation("C18/keepalive-survives-its-session:ended-during-ping", fmt.Sprintf("the session ended while a ping was in flight (interval %v); after that ping returned the loop sent %d more keepalives", iv, n), cs)
			return
		}
		run.Count("sessions_ended_during_a_ping", 1)
	case "one-keepalive":
		// K losses, each followed at once by a Resume from inside the Disconnected handler, with an interval so short
		// that the keepalive is busy pinging most of the time when its session ends. Afterwards the session is up and
		// exactly one keepalive may exist for this client: an old one that survived its session would go on pinging
		// the new connection for ever.
		hold := make(chan struct{})
		lastUp := make(chan struct{})
		var lastOnce sync.Once
		peer := vfNewPeer(func(pc *vfPeerConn) {
			if _, err := pc.Negotiate(&vfNeg{Bind: true, ExpectPresence: pc.N == 0}); err != nil {
				return
			}
			go func() {
				for {
					if _, err := pc.Next(); err != nil {
						return
					}
				}
			}()
			if pc.N < cs.K {
				time.Sleep(3 * time.Millisecond)
				if pc.N%2 == 1 || pc.N >= cs.K-8 {
					// every other session, and the last eight, end because the stream becomes unreadable, not because the connection goes
					// away: the socket stays open (and writable) for a while - nothing but the end of the session stops
					// that session's keepalive
					pc.Send("<<<not xml any more")
					time.Sleep(60 * time.Millisecond)
				}
				pc.Close()
				return
			}
			lastOnce.Do(func() { close(lastUp) })
			<-hold
		})
		defer peer.Stop()
		defer close(hold)
		c, obs, err := vfNewClient(vfClientOpt{Addr: peer.Addr(), Insecure: true, Keepalive: iv}, nil)
		if err != nil {
			run.Inconclusive("newclient")
			return
		}
		var resumes int32
		c.SetHandler(func(e Event) error {
			obs.onEvent(e)
			if e.State.state == StateDisconnected && int(atomic.AddInt32(&resumes, 1)) <= cs.K {
				for try := 0; try < 50; try++ { // a reconnect attempt may be derailed by a stale ping: just try again
					if c.Resume() == nil {
						break
					}
				}
			}
			return nil
		})
		if err := c.Connect(); err != nil {
			run.Inconclusive("connect")
			return
		}
		defer func() { go c.Disconnect() }()
		select {
		case <-lastUp:
		case <-time.After(60 * time.Second):
			run.Inconclusive("resume-chain-watchdog")
			return
		}
		countKA := func() int {
			n := 0
			for _, g := range vfClientGoroutines(c) {
				if strings.Contains(g, "gosrc.io/xmpp.keepalive(") {
					n++
				}
			}
			return n
		}
		// A keepalive whose ping failed closes the transport, and that close takes up to ConnectTimeout (1 s here) before
		// it touches the socket: let any such close that is still pending from the earlier sessions come due (pacing),
		// then judge. The last session was never touched by the peer: it must still be there.
		time.Sleep(1300 * time.Millisecond)
		if d := obs.CountState(StateDisconnected); d > cs.K {
			run.Violation("C18/idle-session-lost-while-keepalive-runs:one-keepalive", fmt.Sprintf("%d sessions were ended by the peer, the last one (connection %d) was left alone - yet %d losses were reported, the last error being %v: the client closed a healthy connection itself (the keepalive of an earlier, lost session was still at work)",
				cs.K, len(peer.Conns()), d, vfLastN(obs.Errors(), 1)), cs)
			return
		}
		// an old loop is released when the receive loop of its session returns - which it does right after the handler
		// that resumed; give that all the time it wants
		settled := vfWaitUntil(10*time.Second, func() bool { return countKA() == 1 })
		if !settled {
			n := countKA()
			if n > 1 {
				run.Violation("C18/keepalive-survives-its-session", fmt.Sprintf("after %d losses and resumptions (interval %v) the client has %d keepalive loops, 10 s after the last session came up", cs.K, iv, n), cs)
			} else {
				run.Violation("C18/no-keepalive-after-resume", fmt.Sprintf("after %d losses and resumptions the client has no keepalive loop (resumes started by the handler: %d, connections seen by the peer: %d, Disconnected events: %d, established events: %d, last errors: %v, client goroutines: %v)",
					cs.K, atomic.LoadInt32(&resumes), len(peer.Conns()), obs.CountState(StateDisconnected), obs.CountState(StateSessionEstablished), vfLastN(obs.Errors(), 4), vfClientGoroutines(c)), cs)
			}
			return
		}
		run.Count("resume_chains_with_one_keepalive", 1)
	case "e2e":
		var pcc *vfPeerConn
		mark := 0
		useTLS := cs.Variant == "tls"
		bytesOf := func(pc *vfPeerConn) string {
			if useTLS {
				return pc.TLSBytes()
			}
			return pc.ClearBytes()
		}
		// whitespace between elements reaches the tokenizer's caller only with the next '<': count raw bytes instead
		rawKeepalives := func() (int, string) {
			b := bytesOf(pcc)
			if len(b) < mark {
				return 0, ""
			}
			return strings.Count(b[mark:], "\n"), b[mark:]
		}
		ready := make(chan struct{})
		hold := make(chan struct{})
		peer := vfNewPeer(func(pc *vfPeerConn) {
			o := &vfNeg{Bind: true, ExpectPresence: pc.N == 0, SM: true, ExpectEnable: pc.N == 0, SMResume: "true", Resume: "resumed"}
			if useTLS {
				o.TLS, o.TLSRequired, o.Domain = vfC04ServerTLS("valid-both"), true, vfC04Domain
			}
			if _, err := pc.Negotiate(o); err != nil {
				return
			}
			if pc.N == 1 {
				pcc = pc
				mark = len(bytesOf(pc))
				close(ready)
			}
			go func() {
				for {
					if _, err := pc.Next(); err != nil {
						return
					}
				}
			}()
			if pc.N == 0 {
				if useTLS {
					// the first session lasts until two keepalives have been read inside TLS - or 10 s (2 000 intervals
					// and more) if none comes: "none" is then a count over a generous window, not a guess about 25 ms
					m0 := len(bytesOf(pc))
					vfWaitUntil(10*time.Second, func() bool {
						b := bytesOf(pc)
						return len(b) >= m0 && strings.Count(b[m0:], "\n") >= 2
					})
				} else {
					time.Sleep(time.Duration(cs.K/2) * iv)
				}
				pc.Close()
				return
			}
			<-hold
		})
		defer peer.Stop()
		defer close(hold)
		opt := vfClientOpt{Addr: peer.Addr(), Insecure: true, SM: true, SMResume: true, Keepalive: iv}
		if useTLS {
			opt.Insecure, opt.Jid, opt.Domain, opt.TLSConfig = false, "test@"+vfC04Domain, vfC04Domain, &tls.Config{RootCAs: vfGetPKI().Pool}
		}
		c, obs, err := vfNewClient(opt, nil)
		if err != nil {
			run.Inconclusive("newclient")
			return
		}
		if cs.Variant == "logged" {
			c.transport.LogTraffic(io.Discard) // what NewClient does with Config.StreamLogger
		}
		var resumeErr error
		resumed := make(chan struct{})
		if cs.Variant == "in-handler" {
			var once sync.Once
			c.SetHandler(func(e Event) error {
				obs.onEvent(e)
				if e.State.state == StateDisconnected {
					once.Do(func() {
						resumeErr = c.Resume() // synchronously, inside the goroutine that reported the loss
						close(resumed)
					})
				}
				return nil
			})
		}
		if err := c.Connect(); err != nil {
			run.Inconclusive("connect")
			return
		}
		defer func() { go c.Disconnect() }()
		if !vfWaitUntil(15*time.Second, func() bool { return obs.CountState(StateDisconnected) >= 1 }) {
			if useTLS && obs.CountState(StateSessionEstablished) >= 1 {
				run.Inconclusive("no-loss")
			} else {
				run.Inconclusive("no-loss")
			}
			return
		}
		k0 := strings.Count(bytesOf(peer.Conns()[0]), "\n")
		if useTLS && k0 == 0 && cs.K >= 8 {
			// the first session lived K/2 intervals and then the *peer* closed it: no keepalive inside TLS at all means
			// the keepalive went somewhere else (or the session died of it before the peer closed)
			run.Violation("C18/no-keepalive-inside-tls", fmt.Sprintf("interval %v: the STARTTLS session was kept open for 10 s or until the peer had read two keepalive bytes inside TLS - it read none; clear-text bytes after <proceed/>: %q", iv, vfClip2(peer.Conns()[0].ClearBytes(), 60)), cs)
			return
		}
		if cs.Variant == "in-handler" {
			select {
			case <-resumed:
			case <-time.After(20 * time.Second):
				run.Inconclusive("resume-in-handler-watchdog")
				return
			}
			if resumeErr != nil {
				run.Inconclusive("resume")
				return
			}
		} else if err := c.Resume(); err != nil {
			run.Inconclusive("resume")
			return
		}
		<-ready
		stopBusy := make(chan struct{})
		defer close(stopBusy)
		if cs.Variant == "busy" {
			// an application that sends something in every interval: the keepalive is written at the interval all the
			// same (the statement knows no "only when idle")
			go func() {
				for i := 0; ; i++ {
					select {
					case <-stopBusy:
						return
					case <-time.After(iv / 3):
						c.Send(stanza.Message{Attrs: stanza.Attrs{Id: fmt.Sprintf("busy-%d", i), To: "x@y"}, Body: "b"})
					}
				}
			}()
		}
		lossesBefore := obs.CountState(StateDisconnected)
		ok := vfWaitUntil(time.Duration(80*cs.K)*iv+5*time.Second, func() bool { n, _ := rawKeepalives(); return n >= cs.K })
		nk, raw := rawKeepalives()
		if d := obs.CountState(StateDisconnected); d > lossesBefore {
			run.Violation("C18/idle-session-lost-while-keepalive-runs:"+cs.Variant, fmt.Sprintf("interval %v: the peer neither sent nor closed anything, yet the session was reported lost (%d keepalive bytes seen; errors %v)", iv, nk, obs.Errors()), cs)
			return
		}
		if !ok {
			if nk < cs.K/4 {
				run.Violation("C18/no-keepalive-on-wire:after-resume", fmt.Sprintf("interval %v, variant %q: %d keepalive bytes on the resumed connection (first connection: %d)", iv, cs.Variant, nk, k0), cs)
			} else {
				run.Inconclusive("e2e-slow-machine")
			}
			return
		}
		// keepalives are single newlines and nothing else was written on the idle resumed session
		if cs.Variant != "busy" && strings.Trim(raw, "\n") != "" {
			run.Violation("C18/keepalive-not-whitespace", fmt.Sprintf("the idle session carried %q", vfClip2(raw, 200)), cs)
			return
		}
		if cs.Variant != "" {
			run.Count("e2e_sessions_"+cs.Variant, 1)
		}
		run.Count("keepalive_bytes_seen", int64(nk+k0))
		run.Count("e2e_sessions", 1)
	}
	run.Nontrivial(fmt.Sprintf("%+v", *cs))
}

func TestVf_C18(t *testing.T) {
	run := vfkit.Open("C18", "keepalive() driven directly with a stub Transport for intervals 0.5-20 ms: cadence (the k-th Ping never starts before k intervals; K pings arrive), failure of the k-th Ping for every k <= 10 "+
		"(exactly k pings, exactly one Close, goroutine returns), stop with a ping in flight or between ticks after k pings (at most one further ping begins, goroutine returns, no Close); "+
		"end-to-end: a Client with a short KeepaliveInterval, also after Resume - the peer sees whitespace keepalives only; non-trivial = distinct (mode, interval, k)")
	defer run.Close()
	var rc vfC18Case
	if run.ReplayCase(&rc) {
		run.Case(rc)
		vfC18Run(run, &rc)
		return
	}
	intervals := []int{500, 1000, 2000, 5000, 20000}
	if !vfkit.Thorough() {
		intervals = []int{1000, 5000}
	}
	var cases []*vfC18Case
	for _, iv := range intervals {
		cases = append(cases, &vfC18Case{Mode: "cadence", Interval: iv, K: vfkit.Pick(20, 60)})
		for k := 1; k <= 10; k++ {
			cases = append(cases, &vfC18Case{Mode: "fail", Interval: iv, K: k, Err: []string{"generic", "timeout", "deadline", "eof", "epipe"}[k%5]})
			cases = append(cases, &vfC18Case{Mode: "stop", Interval: iv, K: k - 1})
		}
	}
	for i := 0; i < vfkit.Pick(4, 40); i++ {
		cases = append(cases, &vfC18Case{Mode: "e2e", Interval: []int{5000, 10000, 20000, 40000}[i%4], K: 10})
		cases = append(cases, &vfC18Case{Mode: "e2e", Interval: []int{5000, 10000, 20000, 40000}[i%4], K: 10, Variant: "in-handler"})
		cases = append(cases, &vfC18Case{Mode: "e2e", Interval: []int{10000, 20000, 40000, 5000}[i%4], K: 10, Variant: "tls"})
		cases = append(cases, &vfC18Case{Mode: "e2e", Interval: []int{20000, 40000, 5000, 10000}[i%4], K: 10, Variant: "logged"})
		cases = append(cases, &vfC18Case{Mode: "e2e", Interval: []int{40000, 20000, 10000, 30000}[i%4], K: 10, Variant: "busy"})
		cases = append(cases, &vfC18Case{Mode: "clean-close", Interval: []int{5000, 10000, 20000, 40000}[i%4], K: 4})
		cases = append(cases, &vfC18Case{Mode: "half-open", Interval: []int{5000, 10000, 20000, 40000}[i%4], K: 4})
		cases = append(cases, &vfC18Case{Mode: "half-open", Interval: []int{10000, 20000, 40000, 5000}[i%4], K: 4, Variant: "after-resume"})
		cases = append(cases, &vfC18Case{Mode: "one-keepalive", Interval: []int{50, 100, 200, 20}[i%4], K: 25})
		cases = append(cases, &vfC18Case{Mode: "ends-during-ping", Interval: []int{2000, 5000, 1000, 10000}[i%4], K: 1})
		cases = append(cases, &vfC18Case{Mode: "outage", Interval: []int{200, 1000, 500, 2000}[i%4], K: 150})
		if i == 0 || vfkit.Thorough() && i%10 == 0 {
			cases = append(cases, &vfC18Case{Mode: "ws-half-open", Interval: 50000, K: 1})
		}
	}
	run.Exhaustive(true)
	var wg sync.WaitGroup
	workers := 4
	for wk := 0; wk < workers; wk++ {
		wg.Add(1)
		go func(wk int) {
			defer wg.Done()
			for i := wk; i < len(cases) && !run.Enough(); i += workers {
				run.Case(cases[i])
				if i < 3 {
					run.Sample(cases[i])
				}
				vfC18Run(run, cases[i])
			}
		}(wk)
	}
	wg.Wait()
	if run.NViolations() > 0 {
		t.Fail()
	}
}

// vfHeldPing is the client's real transport with one ping held in flight.
type vfHeldPing struct {
	Transport
	armed   int32
	pings   int32
	once    sync.Once
	inPing  chan struct{}
	release chan struct{}
}

func (h *vfHeldPing) Ping() error {
	atomic.AddInt32(&h.pings, 1)
	if atomic.LoadInt32(&h.armed) == 1 {
		held := false
		h.once.Do(func() { held = true })
		if held {
			close(h.inPing)
			<-h.release
		}
	}
	return h.Transport.Ping()
}

func vfLastN(x []string, n int) []string {
	if len(x) > n {
		return x[len(x)-n:]
	}
	return x
}

package xmpp

// C11 — stream management: resume only with the previous id and count; drop stale state.
// Connection histories (fresh session, then k reconnects) x every reply to <resume/> x SM advertised or not.

import (
	"fmt"
	"strconv"
	"strings"
	"sync"
	"testing"
	"time"

	"gosrc.io/xmpp/stanza"
	"vfkit"
)

type vfC11Conn struct {
	SMAdv       bool   `json:"smadv"`                  // urn:xmpp:sm:3 advertised on this connection
	Reply       string `json:"reply"`                  // reply to <resume/> if one arrives: resumed | resumed-other | failed | failed-cond | failed-item | unexpected | malformed | close
	EnableRes   string `json:"enable_res"`             // resume attribute of <enabled/> if the client enables SM here: true | false | ""
	Stanzas     int    `json:"stanzas"`                // stanzas the peer sends on this connection before cutting it
	BindReply   string `json:"bind_reply,omitempty"`   // "" (result) | error
	EnableReply string `json:"enable_reply,omitempty"` // "" (enabled with an id) | noid (enabled without id) | failed
}

type vfC11Case struct {
	Conns []vfC11Conn `json:"conns"`
}

func (s *vfC11Seen) resumeSeen() bool { return s != nil && s.resume != nil }

type vfC11Seen struct {
	resume      *vfElem
	bind        bool
	enable      bool
	enabledId   string
	done        string // bound | resumed | aborted
	err         string
	bindRefused bool
	// resumeConfirmed: the peer answered <resumed/> with the right id on this connection
	resumeConfirmed bool
	enableFailed    bool
	sentBase        int // stanzas the server had counted on this stream-managed session before the three new ones
	ackedH          int
}

func vfC11Run(run *vfkit.Run, cs *vfC11Case) {
	n := len(cs.Conns)
	seen := make([]*vfC11Seen, n)
	for i := range seen {
		seen[i] = &vfC11Seen{}
	}
	connDone := make([]chan struct{}, n)
	for i := range connDone {
		connDone[i] = make(chan struct{})
	}
	lastAcked := new(int)   // h of the last <a/> the server sent on the current stream-managed session
	serverCount := new(int) // stanzas the server has counted on it
	peer := vfNewPeer(func(pc *vfPeerConn) {
		k := pc.N
		if k >= n {
			return
		}
		defer close(connDone[k])
		sc, sn := cs.Conns[k], seen[k]
		neg := &vfNeg{Bind: true, SM: sc.SMAdv, Mechs: []string{"PLAIN"}}
		if _, err := pc.Expect("stream"); err != nil {
			sn.err = err.Error()
			return
		}
		pc.Send(vfStreamHeader("jabber:client", fmt.Sprintf("c11-%d", k), "localhost") + neg.features("pre-auth"))
		if _, err := pc.Expect("auth"); err != nil {
			sn.err = err.Error()
			return
		}
		pc.Send("<success xmlns='" + vfNSSASL + "'/>")
		pc.Restart()
		if _, err := pc.Expect("stream"); err != nil {
			sn.err = err.Error()
			return
		}
		pc.Send(vfStreamHeader("jabber:client", fmt.Sprintf("c11-%da", k), "localhost") + neg.features("post-auth"))
		pc.idle = 600 * time.Millisecond
		resumedOK := false
	loop:
		for {
			e, err := pc.Next()
			if err != nil {
				break
			}
			switch {
			case e.Kind == "close":
				pc.Send("</stream:stream>")
				sn.done = "aborted"
				return
			case e.Is(vfNSSM, "resume"):
				ec := e
				sn.resume = &ec
				switch sc.Reply {
				case "resumed":
					sn.resumeConfirmed = true
					pc.Send(fmt.Sprintf("<resumed xmlns='%s' previd='%s' h='%d'/>", vfNSSM, vfAttrEsc(e.Attrs["previd"]), *lastAcked))
					resumedOK = true
					sn.done = "resumed"
					break loop
				case "resumed-other":
					pc.Send(fmt.Sprintf("<resumed xmlns='%s' previd='not-%s' h='0'/>", vfNSSM, vfAttrEsc(e.Attrs["previd"])))
				case "resumed-noid": // confirms something, but not this session: no previd at all
					pc.Send(fmt.Sprintf("<resumed xmlns='%s' h='0'/>", vfNSSM))
				case "resumed-emptyid":
					pc.Send(fmt.Sprintf("<resumed xmlns='%s' previd='' h='0'/>", vfNSSM))
				case "failed":
					pc.Send("<failed xmlns='" + vfNSSM + "'/>")
				case "failed-cond":
					pc.Send("<failed xmlns='" + vfNSSM + "'><unexpected-request xmlns='urn:ietf:params:xml:ns:xmpp-stanzas'/></failed>")
				case "failed-item":
					pc.Send("<failed xmlns='" + vfNSSM + "' h='0'><item-not-found xmlns='urn:ietf:params:xml:ns:xmpp-stanzas'/></failed>")
				case "stream-error": // the server is going down: says so, in a well-formed, decodable way, and ends the stream
					pc.Send("<stream:error><system-shutdown xmlns='urn:ietf:params:xml:ns:xmpp-streams'/></stream:error></stream:stream>")
				case "unexpected":
					pc.Send("<message from='a@b'><body>eh?</body></message>")
				case "malformed":
					pc.Send("<resumed <<<")
				default:
					pc.Close()
					sn.done = "aborted"
					return
				}
			case e.Is("", "iq") && e.Child("bind") != nil:
				sn.bind = true
				if sc.BindReply == "error" {
					pc.Send(fmt.Sprintf("<iq type='error' id='%s'><error type='cancel'><conflict xmlns='urn:ietf:params:xml:ns:xmpp-stanzas'/></error></iq>", e.Attrs["id"]))
					sn.bindRefused = true
					continue
				}
				pc.Send(fmt.Sprintf("<iq type='result' id='%s'><bind xmlns='%s'><jid>test@localhost/c%d</jid></bind></iq>", e.Attrs["id"], vfNSBind, k))
				sn.done = "bound"
			case e.Is(vfNSSM, "enable"):
				sn.enable = true
				res := ""
				if sc.EnableRes != "" {
					res = " resume='" + sc.EnableRes + "'"
				}
				switch sc.EnableReply {
				case "failed":
					sn.enable = false
					sn.enableFailed = true
					pc.Send("<failed xmlns='" + vfNSSM + "'><internal-server-error xmlns='urn:ietf:params:xml:ns:xmpp-stanzas'/></failed>")
					continue
				case "noid":
					sn.enabledId = ""
					pc.Send(fmt.Sprintf("<enabled xmlns='%s'%s/>", vfNSSM, res))
				default:
					sn.enabledId = fmt.Sprintf("id-%d", k)
					if k%2 == 0 {
						// session ids are opaque to the client: a server may well use characters that need escaping
						sn.enabledId = fmt.Sprintf("i&d'<\">%%s %d", k)
					}
					pc.Send(fmt.Sprintf("<enabled xmlns='%s' id='%s'%s/>", vfNSSM, vfAttrEsc(sn.enabledId), res))
				}
			case e.Is("", "presence"):
				break loop // end of a fresh negotiation started by Connect
			}
			if sn.done == "bound" && (!sc.SMAdv || sn.enable) && k > 0 {
				break loop // Resume() sends no presence
			}
		}
		if sn.done == "" {
			sn.done = "aborted"
			return
		}
		if sn.done == "bound" {
			*serverCount, *lastAcked = 0, 0
			if k == 0 {
				*serverCount = 1 // the initial presence
			}
		}
		sn.sentBase = *serverCount
		_ = resumedOK
		// the application sends three stanzas on every established session; the server acknowledges the first of
		// them (and the initial presence, if this session had one), so that the held stanzas no longer start at number 1
		pc.idle = 1500 * time.Millisecond
		outSeen := 0
		for outSeen < 3 {
			e, err := pc.Next()
			if err != nil {
				pc.Restart() // silence: the connection attempt failed on the client side after all
				break
			}
			if e.Is("", "message") && strings.HasPrefix(e.Attrs["id"], "out-") {
				outSeen++
			}
		}
		pc.idle = 0
		*serverCount += outSeen
		if outSeen == 3 && sc.SMAdv {
			sn.ackedH = sn.sentBase + 1
			*lastAcked = sn.ackedH
			pc.Send(fmt.Sprintf("<a xmlns='%s' h='%d'/>", vfNSSM, sn.ackedH))
		}
		// traffic on the established session, then a synchronised cut
		var sb strings.Builder
		for i := 0; i < sc.Stanzas; i++ {
			sb.WriteString(fmt.Sprintf("<message id='c%d-%d' from='p@q'><body>x</body></message>", k, i))
		}
		sb.WriteString("<iq type='get' id='sync-" + strconv.Itoa(k) + "' from='localhost'><ping xmlns='urn:xmpp:ping'/></iq>")
		pc.Send(sb.String())
		// the unmatched get is answered by the router with an error: proof that everything before it was consumed
		pc.idle = 5 * time.Second
		for {
			e, err := pc.Next()
			if err != nil {
				break
			}
			if e.Is("", "iq") && e.Attrs["id"] == "sync-"+strconv.Itoa(k) {
				break
			}
		}
		pc.Close()
	})
	defer peer.Stop()
	c, obs, err := vfNewClient(vfClientOpt{Addr: peer.Addr(), Insecure: true, SM: true, SMResume: true}, nil)
	if err != nil {
		run.Inconclusive("newclient")
		return
	}
	// the model of what the client may hold
	heldId := ""      // id of the last <enabled/>, "" when nothing to resume
	inbound := 0      // stanzas received on the stream-managed session
	smActive := false // a stream-managed session exists
	waitLoss := -1    // Disconnected events to wait for before the next reconnect (-1: none)
	everIssued := map[string]bool{}
	unknownState := false // after a connection without SM advertised nothing is asserted about what is held
	var bindJid string
	for k := 0; k < n; k++ {
		sc := cs.Conns[k]
		var cerr error
		if waitLoss >= 0 {
			if !vfWaitUntil(10*time.Second, func() bool { return obs.CountState(StateDisconnected) >= waitLoss }) {
				run.Inconclusive("no-disconnect-event")
				go c.Disconnect()
				return
			}
		}
		discBefore := obs.CountState(StateDisconnected)
		var heldBefore []string
		if k == 0 {
			cerr = c.Connect()
		} else {
			vfWaitUntil(5*time.Second, func() bool { return !vfRouterBusy(c.router) })
			if c.Session != nil {
				heldBefore, _ = vfQueueTexts(c)
			}
			cerr = c.Resume()
			if cerr == nil && c.Session != nil {
				heldAfter, _ := vfQueueTexts(c)
				if seen[k].resumeSeen() && sc.Reply == "resumed" && !unknownState && !vfSameStrs(heldBefore, heldAfter) {
					run.Violation("C11/held-stanzas-not-kept-on-resume", fmt.Sprintf("connection %d: the server confirmed the resumption; held before: %s, held after: %s", k, vfClipList(heldBefore), vfClipList(heldAfter)), cs)
					go c.Disconnect()
					return
				}
				if sc.Reply == "resumed" && len(heldBefore) > 0 {
					run.Count("held_stanzas_compared_across_resume", 1)
				}
				// a session that was bound afresh (the old one refused, or nothing to resume) starts with nothing held:
				// what the dead session still owed the server belongs to that session's numbering, not to this one's
				if sc.SMAdv && seen[k].bind && !seen[k].bindRefused && !seen[k].resumeConfirmed && len(heldAfter) > 0 && len(heldBefore) > 0 && !unknownState {
					run.Violation("C11/old-sessions-held-stanzas-on-fresh-session", fmt.Sprintf("connection %d bound a fresh session (reply to <resume/>: %q); it starts out holding %s of the old session", k, sc.Reply, vfClipList(heldAfter)), cs)
					go c.Disconnect()
					return
				}
				if sc.SMAdv && seen[k].bind && len(heldBefore) > 0 {
					run.Count("fresh_sessions_checked_for_leftover_stanzas", 1)
				}
			}
		}
		if cerr == nil {
			for i := 0; i < 3; i++ {
				c.Send(stanza.Message{Attrs: stanza.Attrs{Id: fmt.Sprintf("out-%d-%d", k, i), To: "x@y"}, Body: "b"})
			}
		}
		select {
		case <-connDone[k]:
		case <-time.After(20 * time.Second):
			run.Inconclusive("peer-watchdog")
			go c.Disconnect()
			return
		}
		sn := seen[k]
		if run.Replay != "" {
			fmt.Printf("DEBUG conn %d: err=%v resume=%v bind=%v enable=%v done=%q perr=%q heldId=%q\n", k, cerr, sn.resume != nil, sn.bind, sn.enable, sn.done, sn.err, heldId)
		}
		tag := fmt.Sprintf("conn%d:%s", vfMin(k, 2), sc.Reply)
		if k == 0 {
			tag = "conn0"
		}
		// --- what the client asked
		if sn.resume == nil {
			// a resumption request the peer's XML parser could not read is a request all the same: it does not present
			// the id that was handed out (ids are opaque strings; the client has to escape them like any attribute)
			if conns := peer.Conns(); k < len(conns) {
				if raw := conns[k].ClearBytes(); strings.Contains(raw, "<resume") {
					i := strings.Index(raw, "<resume")
					run.Violation("C11/resume-request-unreadable:"+tag, fmt.Sprintf("connection %d: the client wrote %q - not well-formed XML, the id of the last <enabled/> was %q", k, vfClip2(raw[i:], 160), heldId), cs)
					go c.Disconnect()
					return
				}
			}
		}
		if sn.resume != nil {
			pid, h := sn.resume.Attrs["previd"], sn.resume.Attrs["h"]
			if pid == "" {
				run.Violation("C11/resume-without-id", fmt.Sprintf("connection %d: <resume/> without previd", k), cs)
				go c.Disconnect()
				return
			}
			if !unknownState {
				if heldId == "" {
					run.Violation("C11/resume-with-stale-id:"+tag, fmt.Sprintf("connection %d: <resume previd=%q> although the resumption state had been discarded (no id is held)", k, pid), cs)
					go c.Disconnect()
					return
				}
				if pid != heldId {
					run.Violation("C11/resume-with-wrong-id:"+tag, fmt.Sprintf("connection %d: <resume previd=%q>, id of the last <enabled/> is %q", k, pid, heldId), cs)
					go c.Disconnect()
					return
				}
				if h != strconv.Itoa(inbound) {
					run.Violation("C11/resume-with-wrong-count:"+tag, fmt.Sprintf("connection %d: <resume h=%q>, stanzas received on the session: %d", k, h, inbound), cs)
					go c.Disconnect()
					return
				}
			} else if !everIssued[pid] {
				run.Violation("C11/resume-with-invented-id", fmt.Sprintf("connection %d: previd=%q was never issued", k, pid), cs)
				go c.Disconnect()
				return
			}
			run.Count("resume_requests_checked", 1)
		} else if sc.SMAdv && heldId != "" && !unknownState && k > 0 && smActive {
			// not asking to resume is allowed by the statement; counted only
			run.Count("resumable_but_not_asked", 1)
		}
		// --- what followed
		switch {
		case sn.resume != nil && sc.Reply == "resumed":
			if cerr != nil {
				run.Violation("C11/confirmed-resume-fails", fmt.Sprintf("connection %d: server confirmed the id but Resume returned %v", k, cerr), cs)
				go c.Disconnect()
				return
			}
			if sn.bind {
				run.Violation("C11/bind-after-confirmed-resume", fmt.Sprintf("connection %d: a bind followed a confirmed resumption", k), cs)
				go c.Disconnect()
				return
			}
			// (read after the peer's synchronised cut: the session has consumed this connection's stanzas and the sync iq)
			if !unknownState && (c.Session.BindJid != bindJid || c.Session.SMState.Id != heldId || int(c.Session.SMState.Inbound) != inbound+sc.Stanzas+1) {
				run.Violation("C11/identity-not-kept-on-resume", fmt.Sprintf("connection %d: BindJid %q (was %q), SM id %q (was %q), inbound %d (was %d + %d received since)", k, c.Session.BindJid, bindJid, c.Session.SMState.Id, heldId, c.Session.SMState.Inbound, inbound, sc.Stanzas+1), cs)
				go c.Disconnect()
				return
			}
			if unknownState {
				heldId, smActive = sn.resume.Attrs["previd"], true
				inbound, _ = strconv.Atoi(sn.resume.Attrs["h"])
				unknownState = false
			}
			run.Count("resumptions_confirmed", 1)
		case sn.resume != nil:
			refused := strings.HasPrefix(sc.Reply, "failed")
			if refused && !sn.bind {
				run.Violation("C11/no-bind-after-refusal:"+sc.Reply, fmt.Sprintf("connection %d: resumption refused with %q; a fresh bind must follow, none was attempted (err=%v)", k, sc.Reply, cerr), cs)
				go c.Disconnect()
				return
			}
			if refused && cerr != nil && !sn.bindRefused && !sn.enableFailed {
				run.Violation("C11/no-bind-after-refusal:"+sc.Reply, fmt.Sprintf("connection %d: resumption refused with %q; a fresh bind must follow, got bind=%v err=%v", k, sc.Reply, sn.bind, cerr), cs)
				go c.Disconnect()
				return
			}
			if cerr == nil && (!sn.bind || sn.bindRefused) {
				run.Violation("C11/old-session-continued:"+sc.Reply, fmt.Sprintf("connection %d: reply %q is not a confirmation of the id, yet the connection succeeded without a bind", k, sc.Reply), cs)
				go c.Disconnect()
				return
			}
			// stale state must be gone, whatever happens next
			if cerr != nil && c.Session != nil && c.Session.SMState.Id == heldId && heldId != "" {
				run.Violation("C11/stale-state-kept:"+sc.Reply, fmt.Sprintf("connection %d failed after reply %q but SMState.Id is still %q", k, sc.Reply, heldId), cs)
				go c.Disconnect()
				return
			}
			heldId, inbound, smActive = "", 0, false
			run.Count("refusals_and_mismatches", 1)
		default:
			if cerr == nil && (!sn.bind || sn.bindRefused) {
				run.Violation("C11/success-without-bind-or-resume", fmt.Sprintf("connection %d succeeded without bind and without resumption", k), cs)
				go c.Disconnect()
				return
			}
			if k > 0 && sn.bind {
				// a fresh bind replaces whatever session existed
				if !sc.SMAdv {
					unknownState = true
				}
				heldId, inbound, smActive = "", 0, false
			}
		}
		if cerr != nil && k > 0 && sn.resume == nil && sn.bind {
			// a fresh bind was attempted (and failed): whatever session existed before is over
			heldId, inbound, smActive = "", 0, false
		}
		if cerr != nil {
			// the connection failed: the next attempt happens without a new loss event
			seen[k].done = "failed"
			waitLoss = -1 // nothing was established: the next attempt follows directly, as in a retry loop
			continue
		}
		if sn.bind {
			bindJid = c.Session.BindJid
			if sn.enable {
				heldId, smActive, inbound = sn.enabledId, true, 0
				everIssued[heldId] = true
				unknownState = false
			}
		}
		if smActive || sn.resume != nil && sc.Reply == "resumed" {
			inbound += sc.Stanzas + 1 // + the sync iq
		}
		waitLoss = discBefore + 1 // the peer cuts this session: wait for the loss report before reconnecting
	}
	go c.Disconnect()
	run.Nontrivial(fmt.Sprintf("%+v", *cs))
}

func TestVf_C11(t *testing.T) {
	run := vfkit.Open("C11", "connection histories: fresh session (SM enabled, resume attribute true/false/absent) then 1-4 reconnects through Client.Resume(), each with SM advertised or not and every reply to <resume/> "+
		"{resumed same id, resumed other id, <failed/>, <failed/> with a condition, <failed h><item-not-found/>, unexpected element, malformed, close}, with stanzas exchanged on every established session; "+
		"all histories of <=3 connections exhaustively, longer ones sampled; oracle: previd == id of the last <enabled/>, h == stanzas received, no bind after a confirmation, bind (always) after a refusal, stale id never again; "+
		"non-trivial = distinct history")
	defer run.Close()
	var rc vfC11Case
	if run.ReplayCase(&rc) {
		run.Case(rc)
		vfC11Run(run, &rc)
		return
	}
	replies := []string{"resumed", "resumed-other", "resumed-noid", "resumed-emptyid", "failed", "failed-cond", "failed-item", "unexpected", "stream-error", "malformed", "close"}
	var cases []*vfC11Case
	for _, er := range []string{"true", "false", ""} {
		first := vfC11Conn{SMAdv: true, EnableRes: er, Stanzas: 2}
		for _, r1 := range replies {
			for _, adv1 := range []bool{true, false} {
				if !adv1 && r1 != "resumed" {
					continue // without SM advertised no <resume/> can be sent: one representative
				}
				c1 := vfC11Conn{SMAdv: adv1, Reply: r1, EnableRes: "true", Stanzas: 1}
				cases = append(cases, &vfC11Case{Conns: []vfC11Conn{first, c1}})
				if er != "true" {
					continue
				}
				for _, r2 := range replies {
					c2 := vfC11Conn{SMAdv: true, Reply: r2, EnableRes: "true", Stanzas: 3}
					cases = append(cases, &vfC11Case{Conns: []vfC11Conn{first, c1, c2}})
				}
			}
		}
	}
	// a refusal whose fallback bind is rejected too, an <enabled/> without id, an <enable/> answered with <failed/>:
	// in each case the next connection must not present anything stale
	ok0 := vfC11Conn{SMAdv: true, EnableRes: "true", Stanzas: 2}
	for _, r2 := range []string{"resumed", "failed", "unexpected"} {
		last := vfC11Conn{SMAdv: true, Reply: r2, EnableRes: "true", Stanzas: 1}
		for _, r1 := range []string{"failed", "failed-item", "failed-cond"} {
			cases = append(cases, &vfC11Case{Conns: []vfC11Conn{ok0, {SMAdv: true, Reply: r1, BindReply: "error"}, last}})
		}
		cases = append(cases, &vfC11Case{Conns: []vfC11Conn{{SMAdv: true, EnableRes: "true", EnableReply: "noid", Stanzas: 1}, last}})
		cases = append(cases, &vfC11Case{Conns: []vfC11Conn{{SMAdv: true, EnableRes: "", EnableReply: "noid", Stanzas: 1}, last}})
		cases = append(cases, &vfC11Case{Conns: []vfC11Conn{{SMAdv: true, EnableReply: "failed"}, last}})
		cases = append(cases, &vfC11Case{Conns: []vfC11Conn{ok0, {SMAdv: true, Reply: "failed", EnableRes: "true", EnableReply: "failed"}, last}})
	}
	// longer histories, sampled
	r := vfkit.Rand(11)
	extra := vfkit.Pick(10, 300)
	for i := 0; i < extra; i++ {
		cs := &vfC11Case{Conns: []vfC11Conn{{SMAdv: true, EnableRes: "true", Stanzas: r.Intn(4)}}}
		for j := 0; j < 3+r.Intn(2); j++ {
			cs.Conns = append(cs.Conns, vfC11Conn{SMAdv: r.Intn(5) != 0, Reply: replies[r.Intn(len(replies))], EnableRes: []string{"true", "true", "false", ""}[r.Intn(4)], Stanzas: r.Intn(4)})
		}
		cases = append(cases, cs)
	}
	if !vfkit.Thorough() {
		// quick: all 2-connection histories, a seed-chosen quarter of the rest
		var keep []*vfC11Case
		for _, c := range cases {
			special := false
			for _, cc := range c.Conns {
				if cc.BindReply != "" || cc.EnableReply != "" {
					special = true
				}
			}
			if len(c.Conns) == 2 || special || r.Intn(4) == 0 {
				keep = append(keep, c)
			}
		}
		cases = keep
	} else {
		run.Exhaustive(true)
	}
	run.Extra("histories", len(cases))
	var wg sync.WaitGroup
	workers := 16
	for wk := 0; wk < workers; wk++ {
		wg.Add(1)
		go func(wk int) {
			defer wg.Done()
			for i := wk; i < len(cases) && !run.Enough(); i += workers {
				run.Case(cases[i])
				if i < 3 {
					run.Sample(cases[i])
				}
				vfC11Run(run, cases[i])
			}
		}(wk)
	}
	wg.Wait()
	if run.NViolations() > 0 {
		t.Fail()
	}
}

package xmpp

// Scripted hostile peer ("server") for TCP / STARTTLS, with raw byte logs and an element log
// produced by a raw encoding/xml tokenizer (no go-xmpp types: the observer does not share code with the observed).

import (
	"bufio"
	"crypto/tls"
	"encoding/xml"
	"errors"
	"fmt"
	"io"
	"math/rand"
	"net"
	"strings"
	"sync"
	"sync/atomic"
	"time"
)

type vfElem struct {
	Kind     string            `json:"kind"` // stream | elem | close | eof
	Space    string            `json:"space,omitempty"`
	Local    string            `json:"local,omitempty"`
	Attrs    map[string]string `json:"attrs,omitempty"`
	Text     string            `json:"text,omitempty"`
	Raw      string            `json:"raw,omitempty"`
	TLS      bool              `json:"tls,omitempty"`
	Children []string          `json:"children,omitempty"` // "space local" of direct children
	ChildRaw []vfElem          `json:"-"`
	Seq      int64             `json:"seq"`
}

func (e vfElem) Is(space, local string) bool {
	return e.Kind == "elem" && e.Local == local && (space == "" || e.Space == space)
}

func (e vfElem) IsStanza() bool {
	return e.Kind == "elem" && (e.Local == "message" || e.Local == "presence" || e.Local == "iq") && (e.Space == "jabber:client" || e.Space == "jabber:component:accept")
}

func (e vfElem) Child(local string) *vfElem {
	for i := range e.ChildRaw {
		if e.ChildRaw[i].Local == local {
			return &e.ChildRaw[i]
		}
	}
	return nil
}

var vfClock int64 // one logical clock for every recorded event

func vfTick() int64 { return atomic.AddInt64(&vfClock, 1) }

// vfTee records every byte handed to the tokenizer.
type vfTee struct {
	br  *bufio.Reader
	mu  sync.Mutex
	buf []byte
}

func (t *vfTee) ReadByte() (byte, error) {
	b, err := t.br.ReadByte()
	if err == nil {
		t.mu.Lock()
		t.buf = append(t.buf, b)
		t.mu.Unlock()
	}
	return b, err
}

func (t *vfTee) Read(p []byte) (int, error) {
	n, err := t.br.Read(p)
	t.mu.Lock()
	t.buf = append(t.buf, p[:n]...)
	t.mu.Unlock()
	return n, err
}

func (t *vfTee) snapshot() []byte {
	t.mu.Lock()
	defer t.mu.Unlock()
	return append([]byte(nil), t.buf...)
}

func (t *vfTee) length() int {
	t.mu.Lock()
	defer t.mu.Unlock()
	return len(t.buf)
}

func (t *vfTee) from(start int) string {
	t.mu.Lock()
	defer t.mu.Unlock()
	if start > len(t.buf) {
		return ""
	}
	return string(t.buf[start:])
}

type vfPeerConn struct {
	N     int // connection index at this peer
	raw   net.Conn
	c     net.Conn
	tee   *vfTee
	dec   *xml.Decoder
	inTLS bool

	mu         sync.Mutex
	clearBytes []byte // everything received before/without TLS
	tlsBytes   []byte // application data received inside TLS
	elems      []vfElem
	keepalive  int // whitespace bytes seen between top-level elements
	wmu        sync.Mutex
	written    int
	peer       *vfPeer
	TLSState   *tls.ConnectionState
	closed     bool
	pushback   *vfElem
	idle       time.Duration // when set, a silent client makes Next fail after this long (script pacing only)
}

func (pc *vfPeerConn) reset(c net.Conn) {
	pc.c = c
	pc.tee = &vfTee{br: bufio.NewReaderSize(c, 65536)}
	pc.dec = xml.NewDecoder(pc.tee)
}

// Restart prepares for a new stream header on the same connection (after STARTTLS / SASL).
func (pc *vfPeerConn) Restart() {
	pc.flushTee()
	pc.dec = xml.NewDecoder(pc.tee)
}

// flushTee is only called at protocol switch points (STARTTLS, stream restart), from the goroutine that reads.
func (pc *vfPeerConn) flushTee() {
	b := pc.tee.snapshot()
	pc.mu.Lock()
	if pc.inTLS {
		pc.tlsBytes = append(pc.tlsBytes, b...)
	} else {
		pc.clearBytes = append(pc.clearBytes, b...)
	}
	pc.mu.Unlock()
	pc.tee.mu.Lock()
	pc.tee.buf = pc.tee.buf[:0]
	pc.tee.mu.Unlock()
}

func (pc *vfPeerConn) ClearBytes() string {
	pc.mu.Lock()
	defer pc.mu.Unlock()
	s := string(pc.clearBytes)
	if !pc.inTLS {
		s += string(pc.tee.snapshot())
	}
	return s
}

func (pc *vfPeerConn) TLSBytes() string {
	pc.mu.Lock()
	defer pc.mu.Unlock()
	s := string(pc.tlsBytes)
	if pc.inTLS {
		s += string(pc.tee.snapshot())
	}
	return s
}

func (pc *vfPeerConn) Elems() []vfElem {
	pc.mu.Lock()
	defer pc.mu.Unlock()
	return append([]vfElem(nil), pc.elems...)
}

func (pc *vfPeerConn) Keepalives() int {
	pc.mu.Lock()
	defer pc.mu.Unlock()
	return pc.keepalive
}

func vfAttrMap(as []xml.Attr) map[string]string {
	m := map[string]string{}
	for _, a := range as {
		k := a.Name.Local
		if a.Name.Space != "" && a.Name.Space != "xmlns" {
			k = a.Name.Space + " " + a.Name.Local
		} else if a.Name.Space == "xmlns" {
			k = "xmlns:" + a.Name.Local
		}
		m[k] = a.Value
	}
	return m
}

// Next returns the next top-level event sent by the client.
func (pc *vfPeerConn) Next() (vfElem, error) {
	if pc.pushback != nil {
		e := *pc.pushback
		pc.pushback = nil
		return e, nil
	}
	for {
		start := pc.tee.length()
		if pc.idle > 0 {
			pc.c.SetReadDeadline(time.Now().Add(pc.idle))
		}
		t, err := pc.dec.Token()
		if err != nil {
			e := vfElem{Kind: "eof", Text: err.Error(), Seq: vfTick(), TLS: pc.inTLS}
			pc.mu.Lock()
			pc.elems = append(pc.elems, e)
			pc.mu.Unlock()
			return e, err
		}
		switch tt := t.(type) {
		case xml.CharData:
			pc.mu.Lock()
			pc.keepalive += len(tt)
			pc.mu.Unlock()
		case xml.StartElement:
			if tt.Name.Local == "stream" && tt.Name.Space == "http://etherx.jabber.org/streams" {
				e := vfElem{Kind: "stream", Space: tt.Name.Space, Local: "stream", Attrs: vfAttrMap(tt.Attr), Seq: vfTick(), TLS: pc.inTLS}
				pc.mu.Lock()
				pc.elems = append(pc.elems, e)
				pc.mu.Unlock()
				return e, nil
			}
			e, err := pc.readElem(tt)
			e.Raw = pc.tee.from(start)
			e.Seq = vfTick()
			e.TLS = pc.inTLS
			pc.mu.Lock()
			pc.elems = append(pc.elems, e)
			pc.mu.Unlock()
			return e, err
		case xml.EndElement:
			e := vfElem{Kind: "close", Space: tt.Name.Space, Local: tt.Name.Local, Seq: vfTick(), TLS: pc.inTLS}
			pc.mu.Lock()
			pc.elems = append(pc.elems, e)
			pc.mu.Unlock()
			return e, nil
		}
	}
}

func (pc *vfPeerConn) readElem(st xml.StartElement) (vfElem, error) {
	e := vfElem{Kind: "elem", Space: st.Name.Space, Local: st.Name.Local, Attrs: vfAttrMap(st.Attr)}
	for {
		t, err := pc.dec.Token()
		if err != nil {
			return e, err
		}
		switch tt := t.(type) {
		case xml.CharData:
			e.Text += string(tt)
		case xml.StartElement:
			ch, err := pc.readElem(tt)
			e.Children = append(e.Children, tt.Name.Space+" "+tt.Name.Local)
			e.ChildRaw = append(e.ChildRaw, ch)
			if err != nil {
				return e, err
			}
		case xml.EndElement:
			return e, nil
		}
	}
}

// Expect reads the next event and checks its local name ("stream" for the header).
func (pc *vfPeerConn) Expect(local string) (vfElem, error) {
	e, err := pc.Next()
	if err != nil {
		return e, err
	}
	if e.Local != local {
		return e, fmt.Errorf("peer expected <%s>, client sent %s <%s>", local, e.Kind, e.Local)
	}
	return e, nil
}

// Pending reports whether client bytes are already waiting (pipelining before confirmation).
func (pc *vfPeerConn) Pending(wait time.Duration) bool {
	if pc.tee.br.Buffered() > 0 {
		return true
	}
	pc.c.SetReadDeadline(time.Now().Add(wait))
	_, err := pc.tee.br.Peek(1)
	pc.c.SetReadDeadline(time.Time{})
	return err == nil
}

func (pc *vfPeerConn) Send(s string) error {
	pc.wmu.Lock()
	defer pc.wmu.Unlock()
	n, err := io.WriteString(pc.c, s)
	pc.written += n
	return err
}

// SendSeg writes s in random segments (1-byte writes included).
func (pc *vfPeerConn) SendSeg(s string, r *rand.Rand) error {
	pc.wmu.Lock()
	defer pc.wmu.Unlock()
	b := []byte(s)
	for len(b) > 0 {
		n := len(b)
		switch r.Intn(4) {
		case 0:
			n = 1
		case 1:
			n = 1 + r.Intn(7)
		case 2:
			n = 1 + r.Intn(200)
		}
		if n > len(b) {
			n = len(b)
		}
		m, err := pc.c.Write(b[:n])
		pc.written += m
		if err != nil {
			return err
		}
		b = b[n:]
		if r.Intn(3) == 0 {
			time.Sleep(time.Duration(r.Intn(300)) * time.Microsecond)
		}
	}
	return nil
}

func (pc *vfPeerConn) StartTLS(cfg *tls.Config) error {
	pc.flushTee()
	tc := tls.Server(pc.c, cfg)
	tc.SetDeadline(time.Now().Add(10 * time.Second))
	err := tc.Handshake()
	tc.SetDeadline(time.Time{})
	if err != nil {
		return err
	}
	st := tc.ConnectionState()
	pc.TLSState = &st
	pc.mu.Lock()
	pc.inTLS = true
	pc.mu.Unlock()
	pc.reset(tc)
	return nil
}

func (pc *vfPeerConn) Close() {
	pc.mu.Lock()
	pc.closed = true
	pc.mu.Unlock()
	pc.c.Close()
}

// RST closes with SO_LINGER 0: the client sees ECONNRESET.
func (pc *vfPeerConn) RST() {
	pc.mu.Lock()
	pc.closed = true
	pc.mu.Unlock()
	if tc, ok := pc.raw.(*net.TCPConn); ok {
		tc.SetLinger(0)
	}
	pc.raw.Close()
}

// DrainUntilClosed reads (and logs) whatever the client still sends until EOF/error.
func (pc *vfPeerConn) DrainUntilClosed(max time.Duration) {
	pc.c.SetReadDeadline(time.Now().Add(max))
	for {
		if _, err := pc.Next(); err != nil {
			break
		}
	}
	pc.c.SetReadDeadline(time.Time{})
}

// ---------------------------------------------------------------------------------------------

type vfPeer struct {
	ln      net.Listener
	handler func(pc *vfPeerConn)
	mu      sync.Mutex
	conns   []*vfPeerConn
	wg      sync.WaitGroup
	refuse  int32 // accept-then-close for the next n connections
	stopped int32
}

func vfNewPeer(handler func(pc *vfPeerConn)) *vfPeer {
	ln, err := net.Listen("tcp", "127.0.0.1:0")
	if err != nil {
		panic(err)
	}
	p := &vfPeer{ln: ln, handler: handler}
	p.wg.Add(1)
	go p.acceptLoop(ln)
	return p
}

func (p *vfPeer) acceptLoop(ln net.Listener) {
	defer p.wg.Done()
	for {
		c, err := ln.Accept()
		if err != nil {
			return
		}
		if tc, ok := c.(*net.TCPConn); ok {
			tc.SetNoDelay(true)
		}
		if atomic.LoadInt32(&p.refuse) > 0 {
			atomic.AddInt32(&p.refuse, -1)
			pc := &vfPeerConn{raw: c, peer: p}
			pc.reset(c)
			p.mu.Lock()
			pc.N = len(p.conns)
			p.conns = append(p.conns, pc)
			p.mu.Unlock()
			pc.elems = append(pc.elems, vfElem{Kind: "refused", Seq: vfTick()})
			c.Close()
			continue
		}
		pc := &vfPeerConn{raw: c, peer: p}
		pc.reset(c)
		p.mu.Lock()
		pc.N = len(p.conns)
		p.conns = append(p.conns, pc)
		p.mu.Unlock()
		p.wg.Add(1)
		go func() {
			defer p.wg.Done()
			defer func() {
				pc.mu.Lock()
				cl := pc.closed
				pc.mu.Unlock()
				if !cl {
					pc.Close()
				}
			}()
			p.handler(pc)
		}()
	}
}

func (p *vfPeer) Addr() string { return p.ln.Addr().String() }

func (p *vfPeer) Conns() []*vfPeerConn {
	p.mu.Lock()
	defer p.mu.Unlock()
	return append([]*vfPeerConn(nil), p.conns...)
}

// Stop closes the listener and every connection and waits for the handlers.
func (p *vfPeer) Stop() {
	if !atomic.CompareAndSwapInt32(&p.stopped, 0, 1) {
		return
	}
	p.ln.Close()
	p.mu.Lock()
	cs := append([]*vfPeerConn(nil), p.conns...)
	p.mu.Unlock()
	for _, c := range cs {
		c.raw.Close()
	}
	p.wg.Wait()
}

// CloseListener makes new dials fail with ECONNREFUSED; Reopen listens again on the same port.
func (p *vfPeer) CloseListener() { p.ln.Close() }

func (p *vfPeer) Reopen() error {
	addr := p.ln.Addr().String()
	var ln net.Listener
	var err error
	for i := 0; i < 50; i++ {
		ln, err = net.Listen("tcp", addr)
		if err == nil {
			break
		}
		time.Sleep(5 * time.Millisecond)
	}
	if err != nil {
		return err
	}
	p.ln = ln
	p.wg.Add(1)
	go p.acceptLoop(ln)
	return nil
}

// ---------------------------------------------------------------------------------------------
// standard server-side negotiation

type vfNeg struct {
	Domain      string
	StreamID    string
	TLS         *tls.Config // nil: STARTTLS not offered
	TLSRequired bool
	Mechs       []string
	Bind        bool
	Session     string // "", "optional", "mandatory"
	SM          bool   // advertise urn:xmpp:sm:3
	SMID        string // id given in <enabled/>
	SMResume    string // resume attribute of <enabled/> ("true", "false", "")
	BindJid     string
	// Resume decides the reply to <resume/>: "resumed" (same id), "resumed-other", "failed", "failed-item", "garbage", "close"
	Resume         string
	ResumeH        uint
	ExtraFeatures  string
	ExpectEnable   bool // the client is configured to enable stream management (and SM is advertised)
	ExpectPresence bool // Client.Connect sends an initial <presence/> after the negotiation (Resume does not)
	// StanzasAfterEnabled (out): stanzas this script sent after its <enabled/> - they belong to the stream-managed session
	StanzasAfterEnabled int
}

func vfStreamHeader(ns, id, from string) string {
	return fmt.Sprintf("<?xml version='1.0'?><stream:stream id='%s' from='%s' xmlns='%s' xmlns:stream='http://etherx.jabber.org/streams' version='1.0'>", id, from, ns)
}

const (
	vfNSTLS     = "urn:ietf:params:xml:ns:xmpp-tls"
	vfNSSASL    = "urn:ietf:params:xml:ns:xmpp-sasl"
	vfNSBind    = "urn:ietf:params:xml:ns:xmpp-bind"
	vfNSSession = "urn:ietf:params:xml:ns:xmpp-session"
	vfNSSM      = "urn:xmpp:sm:3"
)

func (o *vfNeg) features(stage string) string {
	var sb strings.Builder
	sb.WriteString("<stream:features>")
	switch stage {
	case "pre-tls":
		if o.TLS != nil {
			sb.WriteString("<starttls xmlns='" + vfNSTLS + "'>")
			if o.TLSRequired {
				sb.WriteString("<required/>")
			}
			sb.WriteString("</starttls>")
		}
		fallthrough
	case "pre-auth":
		sb.WriteString("<mechanisms xmlns='" + vfNSSASL + "'>")
		for _, m := range o.Mechs {
			sb.WriteString("<mechanism>" + m + "</mechanism>")
		}
		sb.WriteString("</mechanisms>")
	case "post-auth":
		if o.Bind {
			sb.WriteString("<bind xmlns='" + vfNSBind + "'/>")
		}
		switch o.Session {
		case "optional":
			sb.WriteString("<session xmlns='" + vfNSSession + "'><optional/></session>")
		case "mandatory":
			sb.WriteString("<session xmlns='" + vfNSSession + "'/>")
		}
		if o.SM {
			sb.WriteString("<sm xmlns='" + vfNSSM + "'/>")
		}
	}
	sb.WriteString(o.ExtraFeatures)
	sb.WriteString("</stream:features>")
	return sb.String()
}

var errVfScript = errors.New("client deviated from the expected negotiation")

// Negotiate plays the server side of a complete successful negotiation and returns what the client ended with:
// "bound" (bind [+session] [+enable] done), "resumed", or an error.
func (pc *vfPeerConn) Negotiate(o *vfNeg) (string, error) {
	if o.Domain == "" {
		o.Domain = "localhost"
	}
	if o.StreamID == "" {
		o.StreamID = fmt.Sprintf("sid%d", pc.N)
	}
	if len(o.Mechs) == 0 {
		o.Mechs = []string{"PLAIN"}
	}
	if o.BindJid == "" {
		o.BindJid = "test@" + o.Domain + "/vf"
	}
	if _, err := pc.Expect("stream"); err != nil {
		return "", err
	}
	pc.Send(vfStreamHeader("jabber:client", o.StreamID, o.Domain) + o.features("pre-tls"))
	e, err := pc.Next()
	if err != nil {
		return "", err
	}
	if e.Is(vfNSTLS, "starttls") {
		if o.TLS == nil {
			return "", errVfScript
		}
		pc.Send("<proceed xmlns='" + vfNSTLS + "'/>")
		if err := pc.StartTLS(o.TLS); err != nil {
			return "", err
		}
		if _, err := pc.Expect("stream"); err != nil {
			return "", err
		}
		pc.Send(vfStreamHeader("jabber:client", o.StreamID+"t", o.Domain) + o.features("pre-auth"))
		if e, err = pc.Next(); err != nil {
			return "", err
		}
	}
	if !e.Is(vfNSSASL, "auth") {
		return "", errVfScript
	}
	pc.Send("<success xmlns='" + vfNSSASL + "'/>")
	pc.Restart()
	if _, err := pc.Expect("stream"); err != nil {
		return "", err
	}
	pc.Send(vfStreamHeader("jabber:client", o.StreamID+"a", o.Domain) + o.features("post-auth"))
	return pc.PostAuth(o)
}

// PostAuth handles resume | bind [session] [enable].
func (pc *vfPeerConn) PostAuth(o *vfNeg) (string, error) {
	e, err := pc.Next()
	if err != nil {
		return "", err
	}
	if e.Is(vfNSSM, "resume") {
		switch o.Resume {
		case "resumed":
			pc.Send(fmt.Sprintf("<resumed xmlns='%s' previd='%s' h='%d'/>", vfNSSM, e.Attrs["previd"], o.ResumeH))
			return "resumed", nil
		case "resumed-other":
			pc.Send(fmt.Sprintf("<resumed xmlns='%s' previd='%s' h='%d'/>", vfNSSM, e.Attrs["previd"]+"-other", o.ResumeH))
			return "resumed-other", nil
		case "failed-item":
			pc.Send("<failed xmlns='" + vfNSSM + "' h='0'><item-not-found xmlns='urn:ietf:params:xml:ns:xmpp-stanzas'/></failed>")
		case "failed-cond":
			pc.Send("<failed xmlns='" + vfNSSM + "'><unexpected-request xmlns='urn:ietf:params:xml:ns:xmpp-stanzas'/></failed>")
		case "garbage":
			pc.Send("<message><body>what</body></message>")
			return "garbage", nil
		case "close":
			pc.Close()
			return "close", nil
		default:
			pc.Send("<failed xmlns='" + vfNSSM + "'/>")
		}
		if e, err = pc.Next(); err != nil {
			return "", err
		}
	}
	if !e.Is("", "iq") || e.Child("bind") == nil {
		return "", errVfScript
	}
	pc.Send(fmt.Sprintf("<iq type='result' id='%s'><bind xmlns='%s'><jid>%s</jid></bind></iq>", e.Attrs["id"], vfNSBind, o.BindJid))
	outcome := "bound"
	// the legacy session request and <enable/> are served in whichever order the client sends them; what matters to a
	// stream-managed session is which stanzas the server sends once it has said <enabled/> - those count
	needSession, needEnable, enabledSent := o.Session == "mandatory", o.ExpectEnable, false
	for needSession || needEnable {
		if e, err = pc.Next(); err != nil {
			return outcome, err
		}
		switch {
		case needSession && e.Is("", "iq") && e.Child("session") != nil:
			pc.Send(fmt.Sprintf("<iq type='result' id='%s'/>", e.Attrs["id"]))
			if enabledSent {
				o.StanzasAfterEnabled++
			}
			needSession = false
		case needEnable && e.Is(vfNSSM, "enable"):
			id := o.SMID
			if id == "" {
				id = "smid"
			}
			res := ""
			if o.SMResume != "" {
				res = " resume='" + o.SMResume + "'"
			}
			pc.Send(fmt.Sprintf("<enabled xmlns='%s' id='%s'%s/>", vfNSSM, id, res))
			outcome = "bound+sm"
			needEnable, enabledSent = false, true
		default:
			return outcome, errVfScript
		}
	}
	if o.ExpectPresence {
		if e, err = pc.Next(); err != nil {
			return outcome, err
		}
		if !e.Is("", "presence") {
			return outcome, errVfScript
		}
	}
	return outcome, nil
}

package xmpp

// C19 — reconnection back-off delays are bounded and grow exponentially up to the cap.
// Reference min(cap, base*factor^n) computed with math/big.

import (
	"fmt"
	"math"
	"math/big"
	"regexp"
	"strconv"
	"strings"
	"sync"
	"sync/atomic"
	"testing"
	"time"

	"vfkit"
)

var vfC19Slow int32

type vfBackoffCase struct {
	Base     int    `json:"base"`
	Factor   int    `json:"factor"`
	Cap      int    `json:"cap"`
	NoJitter bool   `json:"nojitter"`
	Attempts []int  `json:"attempts"`
	Mode     string `json:"mode"` // "query" (durationForAttempt) or "sequence" (duration() after reset)
	// Alt (mixed mode): settings the application switches to in the middle (-3 in Attempts): the fields are exported
	// knobs of a live value, and every delay follows the settings in force when it is computed
	Alt [][3]int `json:"alt,omitempty"`
}

// vfRefBackoff returns min(cap, base*factor^n) in milliseconds; zero settings take the documented defaults.
func vfRefBackoff(base, factor, cap, n int) int64 {
	if base == 0 {
		base = defaultBase
	}
	if factor == 0 {
		factor = defaultFactor
	}
	if cap == 0 {
		cap = defaultCap
	}
	c := big.NewInt(int64(cap))
	v := big.NewInt(int64(base))
	f := big.NewInt(int64(factor))
	if factor == 1 {
		if v.Cmp(c) > 0 {
			return c.Int64()
		}
		return v.Int64()
	}
	for i := 0; i < n; i++ {
		v.Mul(v, f)
		if v.Cmp(c) >= 0 {
			return c.Int64()
		}
	}
	if v.Cmp(c) > 0 {
		return c.Int64()
	}
	return v.Int64()
}

func vfBackoffRun(run *vfkit.Run, cs vfBackoffCase) {
	defer func() {
		if p := recover(); p != nil {
			run.Violation("C19/panic:"+cs.Mode, fmt.Sprintf("panic %v on %+v", p, cs), cs)
		}
	}()
	capMs := int64(cs.Cap)
	if capMs == 0 {
		capMs = int64(defaultCap)
	}
	cur := cs // the settings in force (mixed mode may change them)
	check := func(n int, d time.Duration, mode string) bool {
		capMs := int64(cur.Cap)
		if capMs == 0 {
			capMs = int64(defaultCap)
		}
		ref := vfRefBackoff(cur.Base, cur.Factor, cur.Cap, n)
		ms := int64(d / time.Millisecond)
		if d < 0 {
			run.Violation("C19/negative:"+mode, fmt.Sprintf("attempt %d: %v < 0 (%+v)", n, d, cs), cs)
			return false
		}
		if ms > capMs || d > time.Duration(capMs)*time.Millisecond {
			run.Violation("C19/above-cap:"+mode, fmt.Sprintf("attempt %d: %v above cap %dms (%+v)", n, d, capMs, cs), cs)
			return false
		}
		if cs.NoJitter {
			if d != time.Duration(ref)*time.Millisecond {
				run.Violation("C19/not-min-cap-exp:"+mode, fmt.Sprintf("attempt %d: got %v, reference min(cap, base*factor^n) = %dms (%+v)", n, d, ref, cs), cs)
				return false
			}
		} else if ms > ref {
			run.Violation("C19/jitter-above-reference:"+mode, fmt.Sprintf("attempt %d: jittered %v above reference %dms (%+v)", n, d, ref, cs), cs)
			return false
		}
		return true
	}
	switch cs.Mode {
	case "query":
		b := &backoff{NoJitter: cs.NoJitter, Base: cs.Base, Factor: cs.Factor, Cap: cs.Cap}
		var prev time.Duration = -1
		prevN := -1
		for _, n := range cs.Attempts {
			if n > 100000 && atomic.LoadInt32(&vfC19Slow) != 0 {
				run.Inconclusive("huge-attempt-skipped-after-slow-query")
				continue
			}
			t0 := time.Now()
			d := b.durationForAttempt(n)
			if time.Since(t0) > 2*time.Second {
				// not a verdict (C19 says nothing about time); only stops the run from drowning in slow queries
				atomic.StoreInt32(&vfC19Slow, 1)
			}
			if !check(n, d, "query") {
				return
			}
			if cs.NoJitter && prevN >= 0 && n >= prevN && d < prev {
				run.Violation("C19/decreasing:query", fmt.Sprintf("attempt %d: %v < %v of attempt %d (%+v)", n, d, prev, prevN, cs), cs)
				return
			}
			prev, prevN = d, n
		}
	case "mixed":
		// one value used both ways: -1 = the next duration() of the consecutive sequence, -2 = reset(), n >= 0 = a
		// durationForAttempt(n) query in between. The query must not disturb the sequence, nor the sequence the query.
		b := &backoff{NoJitter: cs.NoJitter, Base: cs.Base, Factor: cs.Factor, Cap: cs.Cap}
		i, nalt := 0, 0
		for _, a := range cs.Attempts {
			switch {
			case a == -3:
				if len(cs.Alt) > 0 {
					alt := cs.Alt[nalt%len(cs.Alt)]
					nalt++
					b.Base, b.Factor, b.Cap = alt[0], alt[1], alt[2]
					cur.Base, cur.Factor, cur.Cap = alt[0], alt[1], alt[2]
				}
			case a == -2:
				b.reset()
				i = 0
			case a == -1:
				if !check(i, b.duration(), "sequence-with-queries") {
					return
				}
				i++
			default:
				if !check(a, b.durationForAttempt(a), "query-within-sequence") {
					return
				}
			}
		}
	case "sequence":
		b := &backoff{NoJitter: cs.NoJitter, Base: cs.Base, Factor: cs.Factor, Cap: cs.Cap}
		// the attempts list is interpreted as lengths of runs separated by reset()
		for _, ln := range cs.Attempts {
			b.reset()
			for i := 0; i < ln; i++ {
				d := b.duration()
				if !check(i, d, "sequence") {
					return
				}
			}
		}
	}
}

func TestVf_C19(t *testing.T) {
	run := vfkit.Open("C19", "random (base, factor, cap) in [1,1e6]x[1,1e6]x[1,MaxInt64/1e6] ms plus the zero defaults, jitter on/off, "+
		"attempt numbers 0..70, 1e3, 1e6, MaxInt32, through durationForAttempt(n) and through duration() sequences with reset(); "+
		"reference min(cap, base*factor^n) in math/big; non-trivial = setting whose attempt list contains values both below the cap and at the cap")
	defer run.Close()
	var rc vfBackoffCase
	if run.ReplayCase(&rc) {
		run.Case(rc)
		vfBackoffRun(run, rc)
		return
	}
	r := vfkit.Rand(19)
	n := vfkit.Pick(20000, 2000000)
	pickv := func(max int64) int {
		switch r.Intn(6) {
		case 0:
			return 1
		case 1:
			return 1 + r.Intn(10)
		case 2:
			return int(max)
		default:
			// log-uniform
			e := r.Float64() * math.Log(float64(max))
			v := int64(math.Exp(e))
			if v < 1 {
				v = 1
			}
			if v > max {
				v = max
			}
			return int(v)
		}
	}
	for c := 0; c < n; c++ {
		cs := vfBackoffCase{NoJitter: r.Intn(3) != 0}
		if r.Intn(8) == 0 {
			// library defaults
		} else {
			cs.Base = pickv(1000000)
			cs.Factor = pickv(1000000)
			if r.Intn(3) == 0 {
				cs.Factor = 1 + r.Intn(4)
			}
			cs.Cap = pickv(math.MaxInt64 / 1000000)
			if r.Intn(2) == 0 {
				cs.Cap = pickv(100000000)
			}
			if r.Intn(10) == 0 {
				cs.Base, cs.Factor = 0, 0 // mix of defaults and explicit cap
			}
		}
		if r.Intn(2) == 0 {
			cs.Mode = "query"
			k := 3 + r.Intn(10)
			at := 0
			for i := 0; i < k; i++ {
				at += r.Intn(8)
				cs.Attempts = append(cs.Attempts, at)
			}
			switch r.Intn(4) {
			case 0:
				cs.Attempts = append(cs.Attempts, 70, 1000, 1000000, math.MaxInt32)
			case 1:
				// unordered queries: the query is stateless
				r.Shuffle(len(cs.Attempts), func(i, j int) { cs.Attempts[i], cs.Attempts[j] = cs.Attempts[j], cs.Attempts[i] })
			}
		} else if r.Intn(3) == 0 {
			cs.Mode = "mixed"
			for i, k := 0, 5+r.Intn(40); i < k; i++ {
				switch r.Intn(9) {
				case 8:
					if cs.Base != 0 { // explicit settings are replaced by other explicit settings (zero means "default" only at first use)
						cs.Attempts = append(cs.Attempts, -3)
						cs.Alt = append(cs.Alt, [3]int{pickv(100000), 1 + r.Intn(5), pickv(100000000)})
					}
				case 0:
					cs.Attempts = append(cs.Attempts, -2)
				case 1, 2:
					cs.Attempts = append(cs.Attempts, []int{0, 1, r.Intn(12), r.Intn(70), 1000}[r.Intn(5)])
				default:
					cs.Attempts = append(cs.Attempts, -1)
				}
			}
		} else {
			cs.Mode = "sequence"
			runs := 1 + r.Intn(3)
			for i := 0; i < runs; i++ {
				cs.Attempts = append(cs.Attempts, 1+r.Intn(40))
			}
		}
		if c%2000 == 0 {
			run.Case(cs)
		} else {
			run.CaseQuiet()
		}
		if c < 4 {
			run.Sample(cs)
		}
		// non-triviality: below cap at n=0 and at cap for the largest attempt
		maxN := 0
		if cs.Mode == "mixed" {
			i := 0
			for _, a := range cs.Attempts {
				if a == -2 {
					i = 0
				} else if a == -1 {
					if i > maxN {
						maxN = i
					}
					i++
				}
			}
		} else if cs.Mode == "query" {
			for _, a := range cs.Attempts {
				if a > maxN {
					maxN = a
				}
			}
		} else {
			for _, a := range cs.Attempts {
				if a-1 > maxN {
					maxN = a - 1
				}
			}
		}
		capMs := int64(cs.Cap)
		if capMs == 0 {
			capMs = int64(defaultCap)
		}
		if vfRefBackoff(cs.Base, cs.Factor, cs.Cap, 0) < capMs && vfRefBackoff(cs.Base, cs.Factor, cs.Cap, maxN) == capMs && maxN > 0 {
			run.Nontrivial(fmt.Sprintf("%+v", cs))
			run.Count("settings_crossing_cap", 1)
		}
		run.Count("durations_checked_"+cs.Mode, int64(len(cs.Attempts)))
		vfBackoffRun(run, cs)
	}
	// the delays a StreamManager really sleeps, read off the goroutine dump (no clock involved)
	for i := 0; i < vfkit.Pick(4, 24) && !run.Enough(); i++ {
		vfC19Outages(run, i)
	}
	if run.NViolations() > 0 {
		t.Fail()
	}
}

var vfSleepArg = regexp.MustCompile(`(?m)^time\.Sleep\(0x([0-9a-f]+)\)`)

// vfC19Outages: a StreamManager goes through two outages - 6 failed attempts, a session, then 3 failed attempts, a
// session. While its retry loop sleeps, the goroutine dump shows the argument of time.Sleep: the delay before the
// attempt that follows f consecutive failures must not exceed base*factor^f (the peer counts the failures of the
// outage; the count is read after the dump, so it can only be too high - which only loosens the bound).
func vfC19Outages(run *vfkit.Run, idx int) {
	cs := map[string]interface{}{"mode": "stream-manager-outages", "failures": []int{6, 3}, "index": idx}
	run.Case(cs)
	var failures, sessions int32 // failures of the current outage; sessions established so far
	// for the sampler: failures since the start (never reset) and their number when the current outage began. The
	// failures behind a sleep seen in a dump are at most total(read after the dump) - base(read before the dump): the
	// base only ever grows and so does the total, so the estimate can only be too high - which only loosens the bound.
	var totalFailures, baseFailures int32
	plan := []int32{0, 6, 3} // failures to inflict before the k-th session
	cmds := make(chan *vfPeerConn, 8)
	peer := vfNewPeer(func(pc *vfPeerConn) {
		hdr, err := pc.Expect("stream")
		if err != nil {
			return
		}
		k := atomic.LoadInt32(&sessions)
		if int(k) < len(plan) && atomic.LoadInt32(&failures) < plan[k] {
			// a server that cannot take the session just now: it says so at the bind and ends the stream, so that the
			// client learns at once - within milliseconds, without any timeout - that this attempt has failed
			atomic.AddInt32(&failures, 1)
			atomic.AddInt32(&totalFailures, 1)
			pc.Send(vfStreamHeader("jabber:client", "down", "localhost") + "<stream:features><mechanisms xmlns='" + vfNSSASL + "'><mechanism>PLAIN</mechanism></mechanisms></stream:features>")
			if _, err := pc.Expect("auth"); err != nil {
				return
			}
			pc.Send("<success xmlns='" + vfNSSASL + "'/>")
			pc.Restart()
			if _, err := pc.Expect("stream"); err != nil {
				return
			}
			pc.Send(vfStreamHeader("jabber:client", "down2", "localhost") + "<stream:features><bind xmlns='" + vfNSBind + "'/></stream:features>")
			e, err := pc.Expect("iq")
			if err != nil {
				return
			}
			pc.Send(fmt.Sprintf("<iq type='error' id='%s'><error type='wait'><resource-constraint xmlns='urn:ietf:params:xml:ns:xmpp-stanzas'/></error></iq></stream:stream>", e.Attrs["id"]))
			pc.idle = 300 * time.Millisecond
			for {
				if _, err := pc.Next(); err != nil {
					return
				}
			}
		}
		pc.pushback = &hdr // the script below starts with the client's stream header
		if _, err := pc.Negotiate(&vfNeg{Bind: true, ExpectPresence: k == 0}); err != nil {
			return
		}
		atomic.StoreInt32(&failures, 0)
		atomic.StoreInt32(&baseFailures, atomic.LoadInt32(&totalFailures))
		atomic.AddInt32(&sessions, 1)
		cmds <- pc
		for {
			if e, err := pc.Next(); err != nil || e.Kind == "close" {
				return
			}
		}
	})
	defer peer.Stop()
	c, _, err := vfNewClient(vfClientOpt{Addr: peer.Addr(), Insecure: true}, nil)
	if err != nil {
		run.Inconclusive("newclient")
		return
	}
	sm := NewStreamManager(c, nil)
	done := make(chan error, 1)
	go func() { done <- sm.Run() }()
	defer func() { go sm.Stop() }()
	needle := fmt.Sprintf("gosrc.io/xmpp.(*StreamManager).resume(%p", sm)
	stopSampler := make(chan struct{})
	var samples int64
	var worst string
	var mu sync.Mutex
	go func() {
		for {
			select {
			case <-stopSampler:
				return
			default:
			}
			base := atomic.LoadInt32(&baseFailures) // read before the dump
			for _, g := range vfGoroutines() {
				if !strings.Contains(g.Text, needle) {
					continue
				}
				m := vfSleepArg.FindStringSubmatch(g.Text)
				if m == nil {
					continue
				}
				ns, err := strconv.ParseInt(m[1], 16, 64)
				if err != nil {
					continue
				}
				f := int(atomic.LoadInt32(&totalFailures) - base) // total read after the dump
				bound := vfRefBackoff(0, 0, 0, f)                 // defaults: 20 ms * 2^f, capped at three minutes
				atomic.AddInt64(&samples, 1)
				if ns > bound*int64(time.Millisecond) {
					mu.Lock()
					if worst == "" {
						worst = fmt.Sprintf("after at most %d consecutive failed attempts the retry loop sleeps %v, more than base*factor^n = %dms", f, time.Duration(ns), bound)
					}
					mu.Unlock()
				}
			}
			time.Sleep(300 * time.Microsecond)
		}
	}()
	defer close(stopSampler)
	for k := 0; k < len(plan); k++ {
		deadline := time.After(60 * time.Second)
	wait:
		for {
			select {
			case pc := <-cmds:
				if k < len(plan)-1 {
					pc.Close() // the loss that starts the next outage
				}
				break wait
			case err := <-done:
				run.Inconclusive("stream-manager-ended")
				run.Note(fmt.Sprint(err))
				return
			case <-time.After(50 * time.Millisecond):
				// a sleep beyond the bound has been seen: no need to sit it out
				mu.Lock()
				w := worst
				mu.Unlock()
				if w != "" {
					run.Violation("C19/above-reference:stream-manager-outage", w, cs)
					return
				}
			case <-deadline:
				run.Inconclusive("outage-watchdog")
				return
			}
		}
		mu.Lock()
		w := worst
		mu.Unlock()
		if w != "" {
			run.Violation("C19/above-reference:stream-manager-outage", w, cs)
			return
		}
	}
	if n := atomic.LoadInt64(&samples); n < 3 {
		run.Inconclusive("too-few-sleep-samples")
		return
	}
	run.Count("retry_loop_sleeps_sampled", atomic.LoadInt64(&samples))
	run.Nontrivial(fmt.Sprintf("outages|%d", idx))
}

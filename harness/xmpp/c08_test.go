package xmpp

// C08 — each successful Send / SendRaw / SendIQ puts exactly the serialized stanza on the wire, whole and once,
// also with concurrent senders, with or without stream management / traffic logging, over TCP and WebSocket,
// for clients and components; a failed write is reported to the caller.

import (
	"context"
	"encoding/xml"
	"errors"
	"fmt"
	"io"
	"io/ioutil"
	"math/rand"
	"net"
	"os"
	"path/filepath"
	"strconv"
	"strings"
	"sync"
	"sync/atomic"
	"testing"
	"time"

	"gosrc.io/xmpp/stanza"
	"vfkit"
)

type vfC08Case struct {
	Mode   string `json:"mode"` // client-tcp | client-ws | component-tcp
	SM     bool   `json:"sm"`
	Logger bool   `json:"logger"`
	G      int    `json:"g"`
	N      int    `json:"n"` // stanzas per goroutine
	Seed   int64  `json:"seed"`
	Fault  string `json:"fault"` // "" | error | short (k-th socket write fails / is short)
	K      int    `json:"k"`
}

// vfFaultConn sits under the stream logger (or directly under the transport) and fails / shortens the k-th write.
type vfFaultConn struct {
	net.Conn
	n       int64
	k       int64
	kind    string
	fired   int32
	failAll int32 // when set, every write fails without touching the socket
}

func (f *vfFaultConn) Write(p []byte) (int, error) {
	n := atomic.AddInt64(&f.n, 1)
	if atomic.LoadInt32(&f.failAll) != 0 {
		return 0, errors.New("vf injected write error (connection dead for writes)")
	}
	if f.kind != "" && n == f.k {
		atomic.StoreInt32(&f.fired, 1)
		if f.kind == "short" && len(p) > 1 {
			m, _ := f.Conn.Write(p[:len(p)/2])
			return m, nil // a misbehaving writer: short count without an error
		}
		return 0, errors.New("vf injected write error")
	}
	return f.Conn.Write(p)
}

type vfSent struct {
	text string
	err  error
	how  string
}

func vfC08Run(run *vfkit.Run, cs *vfC08Case) {
	work := os.Getenv("VF_WORK")
	if work == "" {
		work = os.TempDir()
	}
	var logFile *os.File
	logPath := ""
	if cs.Logger {
		logPath = filepath.Join(work, fmt.Sprintf("c08-%d.log", cs.Seed))
		var err error
		logFile, err = os.Create(logPath)
		if err != nil {
			run.Inconclusive("logfile")
			return
		}
		defer func() { logFile.Close(); os.Remove(logPath) }()
	}
	router := NewRouter()
	obs := &vfObs{}
	obs.catchAll(router)

	var wire func() string
	var sender StreamClient
	ready := make(chan struct{})
	var perr error
	var stopPeer func()
	var fc *vfFaultConn

	switch cs.Mode {
	case "client-ws":
		var wsc *vfWSConn
		var mark int
		wp := vfNewWSPeer(nil, func(w *vfWSConn) {
			if err := vfWSNegotiate(w, cs.SM, true); err != nil {
				perr = err
				close(ready)
				return
			}
			wsc = w
			mark = len(w.Received())
			close(ready)
			for {
				if _, err := w.Read(); err != nil {
					return
				}
			}
		})
		stopPeer = wp.Stop
		c, _, err := vfNewClient(vfClientOpt{Addr: wp.URL(), Insecure: true, SM: cs.SM, SMResume: true}, router)
		if err != nil {
			stopPeer()
			run.Inconclusive("newclient")
			return
		}
		if cs.Logger {
			c.config.StreamLogger = logFile
			c.transport.LogTraffic(logFile)
		}
		if err := c.Connect(); err != nil {
			stopPeer()
			run.Inconclusive("connect-ws")
			run.Note(err.Error())
			return
		}
		sender = c
		wire = func() string {
			if wsc == nil {
				return ""
			}
			msgs := wsc.Received()
			if len(msgs) < mark {
				return ""
			}
			return strings.Join(msgs[mark:], "\x00") // message boundaries are part of the observation
		}
	default:
		var pcc *vfPeerConn
		var mark int
		peer := vfNewPeer(func(pc *vfPeerConn) {
			if cs.Mode == "component-tcp" {
				if _, err := pc.Expect("stream"); err != nil {
					perr = err
					close(ready)
					return
				}
				pc.Send(vfStreamHeader("jabber:component:accept", "cid", "comp.localhost"))
				if _, err := pc.Expect("handshake"); err != nil {
					perr = err
					close(ready)
					return
				}
				pc.Send("<handshake/>")
			} else {
				o := &vfNeg{SM: cs.SM, ExpectEnable: cs.SM, SMResume: "true", ExpectPresence: true, Bind: true}
				if _, err := pc.Negotiate(o); err != nil {
					perr = err
					close(ready)
					return
				}
			}
			pcc = pc
			mark = len(pc.ClearBytes())
			close(ready)
			for {
				e, err := pc.Next()
				if err != nil {
					return
				}
				if e.Kind == "close" {
					pc.Send("</stream:stream>")
				}
			}
		})
		stopPeer = peer.Stop
		wire = func() string {
			if pcc == nil {
				return ""
			}
			b := pcc.ClearBytes()
			if len(b) < mark {
				return ""
			}
			return b[mark:]
		}
		if cs.Mode == "component-tcp" {
			comp, _ := NewComponent(ComponentOptions{TransportConfiguration: TransportConfiguration{Address: peer.Addr(), ConnectTimeout: 1}, Domain: "comp.localhost", Secret: "s"}, router, obs.onError)
			if err := comp.Connect(); err != nil {
				stopPeer()
				run.Inconclusive("connect-component")
				return
			}
			xt := comp.transport.(*XMPPTransport)
			fc = &vfFaultConn{Conn: xt.conn, k: int64(cs.K), kind: cs.Fault}
			// rebuild the write path with the library's own logger on top of the fault-injecting socket
			var lw io.Writer
			if cs.Logger {
				lw = logFile
			}
			xt.readWriter = newStreamLogger(fc, lw)
			sender = comp
		} else {
			c, _, err := vfNewClient(vfClientOpt{Addr: peer.Addr(), Insecure: true, SM: cs.SM, SMResume: true}, router)
			if err != nil {
				stopPeer()
				run.Inconclusive("newclient")
				return
			}
			if cs.Logger {
				c.config.StreamLogger = logFile
				c.transport.LogTraffic(logFile)
			}
			if err := c.Connect(); err != nil {
				stopPeer()
				run.Inconclusive("connect")
				run.Note(err.Error())
				return
			}
			xt := c.transport.(*XMPPTransport)
			fc = &vfFaultConn{Conn: xt.conn, k: int64(cs.K), kind: cs.Fault}
			var lw io.Writer
			if cs.Logger {
				lw = logFile
			}
			xt.readWriter = newStreamLogger(fc, lw) // only writers read this field; recv reads through the decoder built at Connect
			sender = c
		}
	}
	defer stopPeer()
	<-ready
	if perr != nil {
		run.Inconclusive("peer-script")
		return
	}
	defer func() { go sender.Disconnect() }()

	// senders
	results := make([][]vfSent, cs.G)
	var wg sync.WaitGroup
	start := make(chan struct{})
	for g := 0; g < cs.G; g++ {
		wg.Add(1)
		go func(g int) {
			defer wg.Done()
			r := rand.New(rand.NewSource(cs.Seed*1009 + int64(g)))
			<-start
			for i := 0; i < cs.N; i++ {
				id := fmt.Sprintf("s%d-g%d-%d", cs.Seed, g, i)
				ln := 10 + r.Intn(200)
				if r.Intn(12) == 0 {
					ln = 40000 // larger than any buffer on the path
				}
				// characters that mean something to a formatter, a URL decoder, a C string or a byte-wise copier
				spice := []string{"", "", " 100% done", " %d%s%v%x%!", " a%20b%2F", " %%", " ünï©ode 中 \U0001F600", " \\n\\t {0} ${x}"}[r.Intn(8)]
				how := r.Intn(3)
				// build(ln) serializes the stanza with ln filler characters in its text
				var m stanza.Message
				var iq *stanza.IQ
				build := func(ln int) string {
					body := fmt.Sprintf("%s:%s", id, strings.Repeat(string(rune('a'+g%26)), ln)) + spice
					switch how {
					case 0:
						m = stanza.Message{Attrs: stanza.Attrs{Id: id, To: "a@b", Type: "chat"}, Body: body + " <&>"}
						b, _ := xml.Marshal(m)
						return string(b)
					case 1:
						return fmt.Sprintf(`<message id='%s' to='x@y'><body>%s</body></message>`, id, body)
					}
					iq, _ = stanza.NewIQ(stanza.Attrs{Id: id, Type: "get", To: "srv"})
					iq.Payload = &stanza.DiscoInfo{Node: body}
					b, _ := xml.Marshal(iq)
					return string(b)
				}
				if r.Intn(30) == 0 {
					// a stanza whose serialized length is exactly a buffer size of the path, or one byte off
					target := []int{4096, 32768, 65536}[r.Intn(3)] + r.Intn(3) - 1
					if base := len(build(0)); target > base {
						ln = target - base
					}
				}
				txt := build(ln)
				var s vfSent
				switch how {
				case 0:
					s = vfSent{text: txt, how: "Send"}
					s.err = sender.Send(m)
				case 1:
					s = vfSent{text: txt, how: "SendRaw"}
					s.err = sender.SendRaw(txt)
				default:
					s = vfSent{text: txt, how: "SendIQ"}
					ctx, cancel := context.WithCancel(context.Background())
					_, s.err = sender.SendIQ(ctx, iq)
					cancel()
				}
				if l := len(txt); l >= 4095 && l <= 4097 || l >= 32767 && l <= 32769 || l >= 65535 && l <= 65537 {
					atomic.AddInt64(&vfC08BoundarySized, 1)
				}
				results[g] = append(results[g], s)
				if r.Intn(4) == 0 {
					time.Sleep(0)
				}
			}
		}(g)
	}
	close(start)
	wg.Wait()

	tag := fmt.Sprintf("%s:sm=%v:log=%v", cs.Mode, cs.SM, cs.Logger)
	// errors must correspond exactly to injected faults
	nerr := 0
	wantLen := 0
	var accepted []vfSent
	for _, rs := range results {
		for _, s := range rs {
			if s.err != nil {
				nerr++
			} else {
				accepted = append(accepted, s)
				wantLen += len(s.text)
			}
		}
	}
	fired := fc != nil && atomic.LoadInt32(&fc.fired) == 1
	if cs.Fault == "" && nerr > 0 {
		run.Violation("C08/send-error-without-fault:"+tag, fmt.Sprintf("%d sends returned an error although nothing was injected", nerr), cs)
		return
	}
	if cs.Fault != "" && fired && cs.G == 1 {
		// single sender: socket write #k is send #k
		for i, s := range results[0] {
			switch {
			case i+1 == cs.K && s.err == nil:
				run.Violation("C08/failed-write-not-reported:"+cs.Fault+":"+tag, fmt.Sprintf("socket write #%d was made to fail (%s) but %s #%d returned nil", cs.K, cs.Fault, s.how, i+1), cs)
				return
			case i+1 < cs.K && s.err != nil:
				run.Violation("C08/send-error-without-fault:"+tag, fmt.Sprintf("%s #%d returned %v before the injected fault at #%d", s.how, i+1, s.err, cs.K), cs)
				return
			case i+1 > cs.K && s.err != nil && cs.Fault == "error":
				// nothing reached the wire for the failed send, the stream is intact: later sends must succeed
				run.Violation("C08/send-error-without-fault:"+tag, fmt.Sprintf("%s #%d returned %v after the (clean) injected failure at #%d", s.how, i+1, s.err, cs.K), cs)
				return
			}
		}
	}
	if cs.Fault == "short" {
		// the stream is corrupt after a short write: nothing more to assert about the wire
		run.Count("short_write_faults_reported", 1)
		run.Nontrivial(fmt.Sprintf("%v", *cs))
		return
	}
	sep := ""
	if cs.Mode == "client-ws" {
		sep = "\x00"
	}
	wantTotal := wantLen + len(sep)*(len(accepted)-1)
	if len(accepted) == 0 {
		wantTotal = 0
	}
	vfWaitUntil(15*time.Second, func() bool { return len(strings.Replace(wire(), "\n", "", -1)) >= wantTotal })
	w := strings.Replace(wire(), "\n", "", -1)
	for _, s := range accepted {
		cnt := strings.Count(w, s.text)
		if cnt != 1 {
			k := "C08/stanza-not-whole-on-wire:"
			if cnt > 1 {
				k = "C08/stanza-duplicated-on-wire:"
			}
			run.Violation(k+tag, fmt.Sprintf("%s of %d bytes appears %d times contiguously in the peer's byte stream (want exactly once); %d goroutines", s.how, len(s.text), cnt, cs.G), cs)
			return
		}
		if cs.Mode == "client-ws" {
			// one stanza per message
			found := false
			for _, m := range strings.Split(w, "\x00") {
				if m == s.text {
					found = true
				}
			}
			if !found {
				run.Violation("C08/ws-message-not-exactly-the-stanza:"+tag, fmt.Sprintf("%s of %d bytes is not a WebSocket message of its own", s.how, len(s.text)), cs)
				return
			}
		}
	}
	if len(w) != wantTotal {
		run.Violation("C08/extra-or-missing-bytes-on-wire:"+tag, fmt.Sprintf("peer received %d bytes after the negotiation, accepted sends amount to %d", len(w), wantTotal), cs)
		return
	}
	// per-sender order is preserved on the wire
	for g, rs := range results {
		last := -1
		for _, s := range rs {
			if s.err != nil {
				continue
			}
			p := strings.Index(w, s.text)
			if p < last {
				run.Violation("C08/sender-order-not-preserved:"+tag, fmt.Sprintf("goroutine %d: a later stanza precedes an earlier one on the wire", g), cs)
				return
			}
			last = p
		}
	}
	if cs.Logger {
		logFile.Sync()
		lb, _ := ioutil.ReadFile(logPath)
		ls := string(lb)
		for _, s := range accepted {
			if strings.Count(ls, s.text) != 1 {
				run.Violation("C08/log-does-not-contain-stanza-once:"+tag, fmt.Sprintf("%s of %d bytes appears %d times in the traffic log", s.how, len(s.text), strings.Count(ls, s.text)), cs)
				return
			}
		}
		run.Count("log_entries_checked", int64(len(accepted)))
	}
	run.Count("stanzas_on_wire_once", int64(len(accepted)))
	run.Count("bytes_compared", int64(len(w)))
	if cs.Fault != "" && fired {
		run.Count("write_faults_reported", 1)
	}
	run.Nontrivial(fmt.Sprintf("%v", *cs))
}

// the logger wrapper in isolation: every k-th failure / short count must become an error, in both positions
type vfMemRW struct {
	mu   sync.Mutex
	buf  []byte
	n, k int
	kind string
}

func (m *vfMemRW) Read(p []byte) (int, error) { return 0, io.EOF }
func (m *vfMemRW) Write(p []byte) (int, error) {
	m.mu.Lock()
	defer m.mu.Unlock()
	m.n++
	if m.kind != "" && m.n == m.k {
		if m.kind == "short" && len(p) > 0 {
			m.buf = append(m.buf, p[:len(p)-1]...)
			return len(p) - 1, nil
		}
		return 0, errors.New("injected")
	}
	m.buf = append(m.buf, p...)
	return len(p), nil
}

func vfC08LoggerUnit(run *vfkit.Run) {
	for _, kind := range []string{"error", "short"} {
		for k := 1; k <= 12; k++ {
			sock := &vfMemRW{k: k, kind: kind}
			logw := &vfMemRW{}
			sl := newStreamLogger(sock, logw)
			for i := 1; i <= 12; i++ {
				p := []byte(fmt.Sprintf("<m n='%d'/>", i))
				n, err := sl.Write(p)
				run.CaseQuiet()
				if i == k {
					if err == nil {
						run.Violation("C08/logger-swallows-socket-failure:"+kind, fmt.Sprintf("socket write #%d %s but the logger returned n=%d err=nil", k, kind, n), map[string]interface{}{"kind": kind, "k": k})
						return
					}
				} else if err != nil || n != len(p) {
					run.Violation("C08/logger-error-without-fault", fmt.Sprintf("write #%d: n=%d err=%v", i, n, err), map[string]interface{}{"kind": kind, "k": k})
					return
				} else if !strings.Contains(string(logw.buf), string(p)) {
					run.Violation("C08/logger-does-not-log", fmt.Sprintf("write #%d not in the log", i), map[string]interface{}{"kind": kind, "k": k})
					return
				}
			}
			run.Count("logger_unit_fault_points", 1)
		}
	}
}

var vfC08BoundarySized int64

func TestVf_C08(t *testing.T) {
	run := vfkit.Open("C08", "G in {1,4,16,64} goroutines x N stanzas each (unique ids, 10 B - 40 KiB, mix of Send / SendRaw / SendIQ) x {stream management on/off} x {traffic logger on/off} "+
		"x {client TCP, client WebSocket, component TCP}; fault runs: the k-th socket write fails, or is short under the logger, for every k of a 30-send run; "+
		"oracle: the peer's raw byte stream after the negotiation is exactly the accepted serializations, each contiguous and once, per-sender order kept, errors == injected faults, log holds each once; "+
		"non-trivial = distinct configuration whose wire was fully accounted for")
	defer run.Close()
	defer func() { run.Count("stanzas_of_exactly_a_buffer_size", atomic.LoadInt64(&vfC08BoundarySized)) }()
	var rc vfC08Case
	if run.ReplayCase(&rc) {
		for i := 0; i < 5; i++ {
			run.Case(rc)
			vfC08Run(run, &rc)
		}
		return
	}
	if n, _ := strconv.Atoi(os.Getenv("VF_C08_WSLOOP")); n > 0 { // debugging aid: only the websocket-close cases, n times
		for i := 0; i < n && run.NViolations() == 0; i++ {
			for _, code := range []int{1000, 1001, 1008, 1011} {
				vfC08WSClosed(run, code, int64(i))
			}
		}
		return
	}
	vfC08LoggerUnit(run)
	c := int64(0)
	rounds := vfkit.Pick(1, 12)
	for round := 0; round < rounds; round++ {
		for _, mode := range []string{"client-tcp", "component-tcp", "client-ws"} {
			for _, sm := range []bool{false, true} {
				if sm && mode == "component-tcp" {
					continue
				}
				for _, lg := range []bool{false, true} {
					for _, g := range []int{1, 4, 16, 64} {
						c++
						n := 240 / g
						if n > 40 {
							n = 40
						}
						cs := &vfC08Case{Mode: mode, SM: sm, Logger: lg, G: g, N: n, Seed: vfkit.Seed()*100000 + c}
						run.Case(cs)
						if c <= 2 {
							run.Sample(cs)
						}
						run.Count("load_runs_"+mode, 1)
						vfC08Run(run, cs)
					}
				}
			}
		}
	}
	// fault runs: single sender, 30 sends, the k-th write fails
	kstep := vfkit.Pick(3, 1)
	for _, mode := range []string{"client-tcp", "component-tcp"} {
		for _, lg := range []bool{false, true} {
			for _, kind := range []string{"error", "short"} {
				if kind == "short" && !lg {
					continue // without the logger a short count with nil error cannot be told from success by any caller
				}
				for k := 1; k <= 30; k += kstep {
					c++
					cs := &vfC08Case{Mode: mode, SM: mode == "client-tcp" && k%2 == 0, Logger: lg, G: 1, N: 30, Seed: vfkit.Seed()*100000 + c, Fault: kind, K: k}
					run.Case(cs)
					run.Count("fault_runs", 1)
					vfC08Run(run, cs)
				}
			}
		}
	}
	// WebSocket: once the server has closed the connection - politely or not - nothing can reach the wire any more, so
	// no send may report success
	for i := 0; i < vfkit.Pick(2, 12); i++ {
		c++
		vfC08AckRequests(run, vfkit.Seed()*100000+c)
		c++
		vfC08WSVerbatim(run, vfkit.Seed()*100000+c)
	}
	for i := 0; i < vfkit.Pick(2, 10); i++ {
		c++
		vfC08SendWhileResuming(run, vfkit.Seed()*100000+c, i%2 == 0)
	}
	var wsw sync.WaitGroup
	for _, code := range []int{1000, 1001, 1008, 1011} {
		c++
		wsw.Add(1)
		go func(code int, seed int64) {
			defer wsw.Done()
			vfC08WSClosed(run, code, seed)
		}(code, vfkit.Seed()*100000+c)
	}
	wsw.Wait()
	if run.NViolations() > 0 {
		t.Fail()
	}
}

func vfC08WSClosed(run *vfkit.Run, code int, seed int64) {
	cs := map[string]interface{}{"mode": "client-ws", "server_close_status": code, "seed": seed}
	run.Case(cs)
	ready, doClose, closed := make(chan struct{}), make(chan struct{}), make(chan struct{})
	var perr error
	var wsc *vfWSConn
	wp := vfNewWSPeer(nil, func(w *vfWSConn) {
		if err := vfWSNegotiate(w, false, true); err != nil {
			perr = err
			close(ready)
			return
		}
		wsc = w
		go func() {
			for {
				if _, err := w.Read(); err != nil {
					return
				}
			}
		}()
		close(ready)
		<-doClose
		w.CloseWith(code, "the server ends the session")
		close(closed)
	})
	defer wp.Stop()
	c, _, err := vfNewClient(vfClientOpt{Addr: wp.URL(), Insecure: true}, NewRouter())
	if err != nil {
		run.Inconclusive("newclient")
		return
	}
	if err := c.Connect(); err != nil {
		run.Inconclusive("connect-ws")
		return
	}
	defer func() { go c.Disconnect() }()
	<-ready
	if perr != nil {
		run.Inconclusive("peer-script")
		return
	}
	// positive control: a send on the open connection arrives
	first := fmt.Sprintf("<message id='open-%d' to='x@y'><body>still open</body></message>", seed)
	if err := c.SendRaw(first); err != nil {
		run.Inconclusive("send-on-open-connection-failed")
		return
	}
	if !vfWaitUntil(10*time.Second, func() bool { return strings.Contains(strings.Join(wsc.Received(), ""), first) }) {
		run.Violation("C08/stanza-not-whole-on-wire:client-ws:sm=false:log=false", "a stanza sent on the open websocket never arrived", cs)
		return
	}
	before := len(wsc.Received())
	close(doClose)
	select {
	case <-closed:
	case <-time.After(20 * time.Second):
		run.Inconclusive("ws-close-watchdog")
		return
	}
	// The client learns of the close a moment after the server's handshake completes (its reader echoes the close frame
	// first and marks the connection closed next), and a write in that moment is a write on a connection that was
	// still open as far as the client could know. So: sends must start failing (within 100 attempts), and once one
	// has failed none may succeed again.
	send := func(i int) error {
		id := fmt.Sprintf("closed-%d-%d", seed, i)
		switch i % 3 {
		case 0:
			return c.Send(stanza.Message{Attrs: stanza.Attrs{Id: id, To: "a@b"}, Body: "anyone?"})
		case 1:
			return c.SendRaw("<message id='" + id + "' to='x@y'><body>anyone?</body></message>")
		}
		iq, _ := stanza.NewIQ(stanza.Attrs{Id: id, Type: "get", To: "srv"})
		iq.Payload = &stanza.Version{}
		ctx, cancel := context.WithCancel(context.Background())
		defer cancel()
		_, err := c.SendIQ(ctx, iq)
		return err
	}
	failedAt := -1
	for i := 0; i < 100; i++ {
		if send(i) != nil {
			failedAt = i
			break
		}
		time.Sleep(2 * time.Millisecond)
	}
	arrived := strings.Join(wsc.Received()[before:], "")
	if failedAt < 0 {
		run.Violation("C08/failed-write-not-reported:ws-after-server-close", fmt.Sprintf("the server closed the websocket with status %d (closing handshake complete); 100 sends over 200 ms all returned nil, the server received %d bytes of them", code, len(arrived)), cs)
		return
	}
	for i := failedAt + 1; i < failedAt+7; i++ {
		if send(i) == nil {
			run.Violation("C08/failed-write-not-reported:ws-after-server-close", fmt.Sprintf("the server closed the websocket with status %d; send #%d failed, send #%d returned nil again", code, failedAt, i), cs)
			return
		}
	}
	run.Count("sends_after_websocket_close_refused", 3)
	run.Nontrivial(fmt.Sprintf("ws-closed|%d", code))
}

// vfC08AckRequests: acknowledgement requests are packets like any other as far as Send is concerned - every call that
// returns nil has put its <r/> on the wire, however many are outstanding.
func vfC08AckRequests(run *vfkit.Run, seed int64) {
	cs := map[string]interface{}{"mode": "client-tcp", "what": "Send(SMRequest) several times without an answer in between", "seed": seed}
	run.Case(cs)
	r := rand.New(rand.NewSource(seed))
	ready := make(chan struct{})
	var pcc *vfPeerConn
	mark := 0
	var perr error
	peer := vfNewPeer(func(pc *vfPeerConn) {
		if _, err := pc.Negotiate(&vfNeg{SM: true, ExpectEnable: true, SMResume: "true", ExpectPresence: true, Bind: true}); err != nil {
			perr = err
			close(ready)
			return
		}
		pcc, mark = pc, len(pc.ClearBytes())
		close(ready)
		for {
			if _, err := pc.Next(); err != nil {
				return
			}
		}
	})
	defer peer.Stop()
	c, _, err := vfNewClient(vfClientOpt{Addr: peer.Addr(), Insecure: true, SM: true, SMResume: true}, NewRouter())
	if err != nil {
		run.Inconclusive("newclient")
		return
	}
	if err := c.Connect(); err != nil {
		run.Inconclusive("connect")
		return
	}
	defer func() { go c.Disconnect() }()
	<-ready
	if perr != nil {
		run.Inconclusive("peer-script")
		return
	}
	var want strings.Builder
	nr := 0
	for i, n := 0, 6+r.Intn(10); i < n; i++ {
		if r.Intn(3) == 0 {
			m := stanza.Message{Attrs: stanza.Attrs{Id: fmt.Sprintf("ar-%d-%d", seed, i), To: "a@b"}, Body: "between requests"}
			b, _ := xml.Marshal(m)
			if err := c.Send(m); err != nil {
				run.Violation("C08/send-error-without-fault:client-tcp:sm=true:log=false", err.Error(), cs)
				return
			}
			want.Write(b)
			continue
		}
		req := stanza.SMRequest{}
		b, _ := xml.Marshal(req)
		if err := c.Send(req); err != nil {
			run.Violation("C08/send-error-without-fault:client-tcp:sm=true:log=false", err.Error(), cs)
			return
		}
		want.Write(b)
		nr++
	}
	wire := func() string { return strings.Replace(pcc.ClearBytes()[mark:], "\n", "", -1) }
	vfWaitUntil(10*time.Second, func() bool { return len(wire()) >= want.Len() })
	if w := wire(); w != want.String() {
		run.Violation("C08/ack-request-not-on-wire", fmt.Sprintf("%d Send(SMRequest) calls (and the messages between them) all returned nil; the peer received %q, the calls amount to %q", nr, vfClip2(w, 400), vfClip2(want.String(), 400)), cs)
		return
	}
	run.Count("ack_requests_on_wire", int64(nr))
	run.Nontrivial(fmt.Sprintf("ack-requests|%d", seed))
}

// vfC08WSVerbatim: SendRaw is verbatim over WebSocket as well - whatever bytes the string holds.
func vfC08WSVerbatim(run *vfkit.Run, seed int64) {
	cs := map[string]interface{}{"mode": "client-ws", "what": "SendRaw of strings that are not valid UTF-8", "seed": seed}
	run.Case(cs)
	ready := make(chan struct{})
	var perr error
	var wsc *vfWSConn
	wp := vfNewWSPeer(nil, func(w *vfWSConn) {
		if err := vfWSNegotiate(w, false, true); err != nil {
			perr = err
			close(ready)
			return
		}
		wsc = w
		close(ready)
		for {
			if _, err := w.Read(); err != nil {
				return
			}
		}
	})
	defer wp.Stop()
	c, _, err := vfNewClient(vfClientOpt{Addr: wp.URL(), Insecure: true}, NewRouter())
	if err != nil {
		run.Inconclusive("newclient")
		return
	}
	if err := c.Connect(); err != nil {
		run.Inconclusive("connect-ws")
		return
	}
	defer func() { go c.Disconnect() }()
	<-ready
	if perr != nil {
		run.Inconclusive("peer-script")
		return
	}
	raws := []string{
		fmt.Sprintf("<message id='v%d-1' to='x@y'><body>caf\xe9 au lait</body></message>", seed),                   // Latin-1 byte
		fmt.Sprintf("<message id='v%d-2' to='x@y'><body>\xff\xfe\x00 not text at all \xc3</body></message>", seed), // truncated sequence at the end
		fmt.Sprintf("<message id='v%d-3' to='x@y'><body>\xed\xa0\x80 lone surrogate, \xc0\xaf overlong</body></message>", seed),
		fmt.Sprintf("<message id='v%d-4' to='x@y'><body>plain ascii control</body></message>", seed),
	}
	before := len(wsc.Received())
	for _, x := range raws {
		if err := c.SendRaw(x); err != nil {
			run.Inconclusive("sendraw-refused") // refusing is not claiming success
			return
		}
	}
	vfWaitUntil(10*time.Second, func() bool { return len(wsc.Received()) >= before+len(raws) })
	got := wsc.Received()[before:]
	for i, x := range raws {
		if i >= len(got) || got[i] != x {
			g := "(nothing)"
			if i < len(got) {
				g = got[i]
			}
			run.Violation("C08/stanza-not-whole-on-wire:client-ws:raw-bytes", fmt.Sprintf("SendRaw(%q) returned nil; the peer received %q", x, g), cs)
			return
		}
	}
	run.Count("raw_byte_strings_verbatim_over_websocket", int64(len(raws)))
	run.Nontrivial(fmt.Sprintf("ws-verbatim|%d", seed))
}

// vfC08SendWhileResuming: the application sends while Client.Resume() is under way (the server takes its time over
// <resume/>). Whatever else happens to that stanza, a Send that returns nil has put it on the wire.
func vfC08SendWhileResuming(run *vfkit.Run, seed int64, refuse bool) {
	cs := map[string]interface{}{"mode": "client-tcp", "what": "Send during Resume", "resumption_refused": refuse, "seed": seed}
	run.Case(cs)
	atResume, sent := make(chan struct{}), make(chan struct{})
	var second *vfPeerConn
	var perr error
	peer := vfNewPeer(func(pc *vfPeerConn) {
		if pc.N == 0 {
			if _, err := pc.Negotiate(&vfNeg{SM: true, ExpectEnable: true, SMResume: "true", SMID: "s-w-r", ExpectPresence: true, Bind: true}); err != nil {
				perr = err
			}
			time.Sleep(20 * time.Millisecond)
			pc.Close()
			return
		}
		if pc.N > 1 {
			return
		}
		second = pc
		fail := func(err error) { perr = err; close(atResume) }
		if _, err := pc.Expect("stream"); err != nil {
			fail(err)
			return
		}
		pc.Send(vfStreamHeader("jabber:client", "swr", "localhost") + "<stream:features><mechanisms xmlns='" + vfNSSASL + "'><mechanism>PLAIN</mechanism></mechanisms></stream:features>")
		if _, err := pc.Expect("auth"); err != nil {
			fail(err)
			return
		}
		pc.Send("<success xmlns='" + vfNSSASL + "'/>")
		pc.Restart()
		if _, err := pc.Expect("stream"); err != nil {
			fail(err)
			return
		}
		pc.Send(vfStreamHeader("jabber:client", "swr2", "localhost") + "<stream:features><bind xmlns='" + vfNSBind + "'/><sm xmlns='" + vfNSSM + "'/></stream:features>")
		e, err := pc.Expect("resume")
		if err != nil {
			fail(err)
			return
		}
		close(atResume) // the client is inside Resume(), waiting for the answer
		<-sent
		pc.idle = 500 * time.Millisecond
		if refuse {
			pc.Send("<failed xmlns='" + vfNSSM + "'/>")
		} else {
			pc.Send(fmt.Sprintf("<resumed xmlns='%s' previd='%s' h='1'/>", vfNSSM, e.Attrs["previd"]))
		}
		for { // whatever follows (the stanza, a bind, <enable/> ...) is logged; answered just enough to let the client finish
			e, err := pc.Next()
			if err != nil {
				return
			}
			switch {
			case e.Is("", "iq") && e.Child("bind") != nil:
				pc.Send(fmt.Sprintf("<iq type='result' id='%s'><bind xmlns='%s'><jid>test@localhost/x</jid></bind></iq>", e.Attrs["id"], vfNSBind))
			case e.Is(vfNSSM, "enable"):
				pc.Send("<enabled xmlns='" + vfNSSM + "' id='s-w-r-2' resume='true'/>")
			}
		}
	})
	defer peer.Stop()
	c, obs, err := vfNewClient(vfClientOpt{Addr: peer.Addr(), Insecure: true, SM: true, SMResume: true}, NewRouter())
	if err != nil {
		run.Inconclusive("newclient")
		return
	}
	if err := c.Connect(); err != nil {
		run.Inconclusive("connect")
		return
	}
	defer func() { go c.Disconnect() }()
	if !vfWaitUntil(10*time.Second, func() bool { return obs.CountState(StateDisconnected) >= 1 }) {
		run.Inconclusive("no-loss")
		return
	}
	resumed := make(chan error, 1)
	go func() { resumed <- c.Resume() }()
	select {
	case <-atResume:
	case <-time.After(15 * time.Second):
		close(sent)
		run.Inconclusive("resume-not-reached")
		return
	}
	if perr != nil {
		close(sent)
		run.Inconclusive("peer-script")
		return
	}
	id := fmt.Sprintf("while-resuming-%d", seed)
	serr := c.Send(stanza.Message{Attrs: stanza.Attrs{Id: id, To: "a@b"}, Body: "sent while the session is being resumed"})
	close(sent)
	select {
	case <-resumed:
	case <-time.After(15 * time.Second):
	}
	if serr == nil {
		if !vfWaitUntil(5*time.Second, func() bool { return strings.Contains(second.ClearBytes(), id) }) {
			run.Violation("C08/send-nil-but-not-on-wire:during-resume", fmt.Sprintf("Send returned nil while Client.Resume() was waiting for the server's answer (which was %v); the stanza never appeared on the connection", map[bool]string{true: "<failed/>", false: "<resumed/>"}[refuse]), cs)
			return
		}
	}
	run.Count("sends_during_resume_checked", 1)
	run.Nontrivial(fmt.Sprintf("send-while-resuming|%d|%v", seed, refuse))
}

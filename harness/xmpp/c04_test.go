package xmpp

// C04 — no credentials or stanzas without verified TLS unless insecure mode is requested.
// The oracle reads only the peer's raw clear-text and in-TLS byte logs.

import (
	"crypto/tls"
	"crypto/x509"
	"fmt"
	"gosrc.io/xmpp/stanza"
	"io"
	"net/http"
	"strings"
	"sync"
	"testing"
	"time"

	"vfkit"
)

type vfC04Case struct {
	Insecure   bool   `json:"insecure"`
	ClientTLS  string `json:"client_tls"`  // nil | rootcas | skipverify | rootcas+hook | rootcas+connhook (audit-only verification callbacks)
	ServerName string `json:"server_name"` // "" | domain | alt
	Offer      string `json:"offer"`       // absent | offered | required
	Reply      string `json:"reply"`       // proceed | failure | garbage | close
	Cert       string `json:"cert"`        // valid | valid-both | otherhost | untrusted | expired | selfsigned
	Reconnect  bool   `json:"reconnect"`   // a first session with valid TLS precedes; the case describes the second connection
	Transport  string `json:"transport"`   // tcp | ws | wss
	Logger     bool   `json:"logger"`      // the traffic logger is switched on (Config.StreamLogger)
	// SilentClose: the server does not answer the client's closing tag (the client's Close then runs into its timeout),
	// and the application - which got an error from Connect - tries to send all the same
	SilentClose bool `json:"silent_close,omitempty"`
	// DomainIP: the account's domain is an address literal (user@127.0.0.1). None of the test certificates is issued
	// for that address, so none validates for the configured domain
	DomainIP bool `json:"domain_ip,omitempty"`
}

const vfC04Domain = "localhost"

func vfC04Sensitive(s string) string {
	for _, m := range []string{"<auth", "<iq", "<presence", "<message", "<enable", "<resume"} {
		if strings.Contains(s, m) {
			return m
		}
	}
	return ""
}

// vfC04Verifies tells whether the certificate the peer serves validates for the configured domain under the client's settings.
func vfC04Verifies(cs *vfC04Case) bool {
	if cs.DomainIP {
		return false // no certificate here names 127.0.0.1
	}
	if cs.ClientTLS == "nil" {
		return false // system roots do not know the test CA
	}
	switch cs.Cert {
	case "valid":
		return cs.ServerName != "alt"
	case "valid-both":
		return true
	}
	return false
}

func vfC04ServerTLS(cert string) *tls.Config {
	pki := vfGetPKI()
	switch cert {
	case "valid":
		return pki.ServerConfig("valid", vfC04Domain)
	case "valid-both":
		return pki.ServerConfig("valid", vfC04Domain, "alt.example")
	case "otherhost":
		return pki.ServerConfig("valid", "alt.example")
	case "untrusted":
		return pki.ServerConfig("untrusted", vfC04Domain)
	case "expired":
		return pki.ServerConfig("expired", vfC04Domain)
	}
	return pki.ServerConfig("selfsigned", vfC04Domain)
}

// vfC04Serve is a hostile-but-helpful server: it always offers PLAIN, takes credentials over any channel, and
// lets the client go as far as it is willing to go.
func vfC04Serve(pc *vfPeerConn, offer, reply, cert string, bait, silentClose bool) {
	pc.idle = 3 * time.Second
	// bait: stanzas a server may well send right behind the answer that makes a careful client give up (a request that
	// gets an automatic error reply when it is routed, a message, an ack request). Whatever the client does with
	// them, it must not write a stanza on the unprotected connection. Only for clients that did not ask for
	// insecure mode (the others are expected to carry on in clear text).
	baitXML := ""
	if bait {
		baitXML = "<iq type='get' id='bait-1' from='" + vfC04Domain + "'><query xmlns='urn:vf:bait'/></iq>" +
			"<message id='bait-2' from='" + vfC04Domain + "'><body>hello</body></message><r xmlns='urn:xmpp:sm:3'/>"
	}
	feat := func(tlsPart bool) string {
		s := "<stream:features>"
		if tlsPart && offer != "absent" {
			s += "<starttls xmlns='" + vfNSTLS + "'>"
			if offer == "required" {
				s += "<required/>"
			}
			s += "</starttls>"
		}
		return s + "<mechanisms xmlns='" + vfNSSASL + "'><mechanism>PLAIN</mechanism></mechanisms></stream:features>"
	}
	if _, err := pc.Expect("stream"); err != nil {
		return
	}
	first := vfStreamHeader("jabber:client", "c04", vfC04Domain) + feat(true)
	if offer == "absent" {
		first += baitXML
	}
	pc.Send(first)
	authed := false
	for {
		e, err := pc.Next()
		if err != nil {
			return
		}
		switch {
		case e.Kind == "close":
			if silentClose && !pc.inTLS {
				pc.drain(2500 * time.Millisecond) // no answer: only listening to what else arrives in clear text
				return
			}
			pc.Send("</stream:stream>")
			if bait && !pc.inTLS {
				pc.drain(300 * time.Millisecond) // whatever the client still writes after its closing tag is logged too
			}
			return
		case e.Kind == "stream":
			// restart: post-auth features if authenticated, else the pre-auth ones again
			if authed {
				pc.Send(vfStreamHeader("jabber:client", "c04r", vfC04Domain) + "<stream:features><bind xmlns='" + vfNSBind + "'/></stream:features>")
			} else {
				pc.Send(vfStreamHeader("jabber:client", "c04r", vfC04Domain) + feat(!pc.inTLS))
			}
		case e.Is(vfNSTLS, "starttls"):
			switch reply {
			case "failure":
				pc.Send("<failure xmlns='" + vfNSTLS + "'/>" + baitXML)
			case "garbage":
				pc.Send("<message><body>tls? never heard of it</body></message>" + baitXML)
			case "close":
				pc.Close()
				return
			default:
				pc.Send("<proceed xmlns='" + vfNSTLS + "'/>")
				if err := pc.StartTLS(vfC04ServerTLS(cert)); err != nil {
					return
				}
				pc.idle = 3 * time.Second
				if _, err := pc.Expect("stream"); err != nil {
					return
				}
				pc.Send(vfStreamHeader("jabber:client", "c04t", vfC04Domain) + feat(false))
			}
		case e.Is(vfNSSASL, "auth"):
			pc.Send("<success xmlns='" + vfNSSASL + "'/>")
			authed = true
			pc.Restart()
		case e.Is("", "iq") && e.Child("bind") != nil:
			pc.Send(fmt.Sprintf("<iq type='result' id='%s'><bind xmlns='%s'><jid>test@%s/r</jid></bind></iq>", e.Attrs["id"], vfNSBind, vfC04Domain))
		}
	}
}

func vfC04ClientTLS(cs *vfC04Case) *tls.Config {
	var c *tls.Config
	switch cs.ClientTLS {
	case "rootcas":
		c = &tls.Config{RootCAs: vfGetPKI().Pool}
	case "rootcas+hook":
		// an application that audits the chain it was given and never objects: verification itself stays the library's job
		c = &tls.Config{RootCAs: vfGetPKI().Pool, VerifyPeerCertificate: func([][]byte, [][]*x509.Certificate) error { return nil }}
	case "rootcas+connhook":
		c = &tls.Config{RootCAs: vfGetPKI().Pool, VerifyConnection: func(tls.ConnectionState) error { return nil }}
	case "skipverify":
		c = &tls.Config{InsecureSkipVerify: true}
	default:
		if cs.ServerName == "" {
			return nil
		}
		c = &tls.Config{}
	}
	switch cs.ServerName {
	case "domain":
		c.ServerName = vfC04Domain
	case "alt":
		c.ServerName = "alt.example"
	}
	return c
}

func vfC04RunTCP(run *vfkit.Run, cs *vfC04Case) {
	tag := fmt.Sprintf("%s:%s:%s:%s", cs.Offer, cs.Reply, cs.Cert, cs.ClientTLS)
	if cs.DomainIP {
		tag += ":ip-literal-domain"
	}
	if cs.Logger {
		tag += ":logged"
	}
	if cs.Reconnect {
		tag = "reconnect:" + tag
	}
	var mu sync.Mutex
	release := make(chan struct{})
	firstReady := make(chan struct{})
	peer := vfNewPeer(func(pc *vfPeerConn) {
		if cs.Reconnect && pc.N == 0 {
			// a first, perfectly secure session
			o := &vfNeg{TLS: vfC04ServerTLS("valid-both"), TLSRequired: true, Bind: true, ExpectPresence: true, Domain: vfC04Domain}
			if _, err := pc.Negotiate(o); err != nil {
				pc.Close() // the client must not be left waiting for a server that has given up
				return
			}
			close(firstReady)
			<-release
			pc.Close()
			return
		}
		vfC04Serve(pc, cs.Offer, cs.Reply, cs.Cert, !cs.Insecure, cs.SilentClose)
	})
	defer peer.Stop()
	_ = mu
	ctls := vfC04ClientTLS(cs)
	if cs.Reconnect {
		// the first session must succeed whatever the case's client settings are: it uses a certificate covering both names
		if ctls == nil || cs.ClientTLS == "nil" {
			ctls = &tls.Config{RootCAs: vfGetPKI().Pool}
		}
	}
	domain := vfC04Domain
	if cs.DomainIP {
		domain = "127.0.0.1"
	}
	c, obs, err := vfNewClient(vfClientOpt{Addr: peer.Addr(), Jid: "test@" + domain, Insecure: cs.Insecure, TLSConfig: ctls, Domain: domain}, nil)
	if err != nil {
		run.Inconclusive("newclient")
		return
	}
	if cs.Logger {
		c.transport.LogTraffic(io.Discard) // what NewClient does with Config.StreamLogger
		run.Count("cases_with_traffic_logger", 1)
	}
	var cerr error
	scripted := 0
	if cs.Reconnect {
		if err := c.Connect(); err != nil {
			close(release)
			run.Inconclusive("first-secure-session-failed")
			run.Note(err.Error())
			return
		}
		select {
		case <-firstReady:
		case <-time.After(15 * time.Second):
			close(release)
			run.Inconclusive("first-secure-session-not-confirmed-by-peer")
			return
		}
		close(release)
		if !vfWaitUntil(10*time.Second, func() bool { return obs.CountState(StateDisconnected) >= 1 }) {
			run.Inconclusive("no-disconnect")
			return
		}
		cerr = c.Resume()
		scripted = 1
	} else {
		close(release)
		cerr = c.Connect()
	}
	if cs.SilentClose && cerr != nil {
		// the application carries on regardless of the error it got
		c.SendRaw("<message id='after-failed-connect-1' to='x@" + vfC04Domain + "'><body>raw</body></message>")
		c.Send(stanza.Message{Attrs: stanza.Attrs{Id: "after-failed-connect-2", To: "x@" + vfC04Domain}, Body: "marshalled"})
		run.Count("sends_attempted_after_failed_connect", 1)
	}
	go c.Disconnect()
	conns := peer.Conns()
	if len(conns) <= scripted {
		run.Inconclusive("no-connection")
		return
	}
	pc := conns[scripted]
	// give the peer's reader a moment to log what the client wrote last (bytes already written are in the socket)
	vfWaitUntil(2*time.Second, func() bool { return pc.closedOrIdle() })
	clear := pc.ClearBytes()
	inTLS := pc.TLSBytes()
	skip := cs.ClientTLS == "skipverify"
	effClientTLS := cs.ClientTLS
	if cs.Reconnect && (cs.ClientTLS == "nil") {
		effClientTLS = "rootcas"
	}
	cs2 := *cs
	cs2.ClientTLS = effClientTLS
	verifies := vfC04Verifies(&cs2)
	if !cs.Insecure {
		if m := vfC04Sensitive(clear); m != "" {
			run.Violation("C04/cleartext-secret:"+tag, fmt.Sprintf("Insecure=false, yet the peer received %s… in clear text: %s", m, vfClip2(clear[strings.Index(clear, m):], 200)), cs)
			return
		}
	}
	if !skip && !verifies {
		if m := vfC04Sensitive(inTLS); m != "" {
			run.Violation("C04/secret-over-unverified-tls:"+tag, fmt.Sprintf("certificate %q does not validate for %s under client settings %s/%s, yet the peer received %s… inside TLS", cs.Cert, vfC04Domain, cs.ClientTLS, cs.ServerName, m), cs)
			return
		}
	}
	if cerr == nil && !cs.Insecure && !(cs.Reply == "proceed" && cs.Offer != "absent" && (verifies || skip)) {
		run.Violation("C04/success-without-verified-tls:"+tag, "Connect returned nil although no verified TLS session can exist in this case", cs)
		return
	}
	// positive controls
	if cs.Reply == "proceed" && cs.Offer != "absent" && (verifies || skip) {
		if cerr != nil || !strings.Contains(inTLS, "<auth") {
			run.Violation("C04/valid-tls-rejected:"+tag, fmt.Sprintf("a certificate that validates was offered but Connect returned %v (auth inside TLS: %v)", cerr, strings.Contains(inTLS, "<auth")), cs)
			return
		}
		run.Count("positive_control_auth_inside_tls", 1)
	}
	if cs.Insecure && cs.Offer == "absent" {
		if cerr != nil || !strings.Contains(clear, "<auth") {
			run.Violation("C04/insecure-mode-refused:"+tag, fmt.Sprintf("Insecure=true and no STARTTLS: expected a clear-text session, got %v", cerr), cs)
			return
		}
		run.Count("positive_control_auth_in_clear", 1)
	}
	run.Count("clear_bytes_inspected", int64(len(clear)))
	run.Count("tls_bytes_inspected", int64(len(inTLS)))
	run.Nontrivial(fmt.Sprintf("%+v", *cs))
}

// drain reads (and logs) raw bytes until the client closes or stays silent for d.
func (pc *vfPeerConn) drain(d time.Duration) {
	buf := make([]byte, 4096)
	for {
		pc.c.SetReadDeadline(time.Now().Add(d))
		if _, err := pc.tee.Read(buf); err != nil {
			pc.c.SetReadDeadline(time.Time{})
			return
		}
	}
}

func (pc *vfPeerConn) closedOrIdle() bool {
	pc.mu.Lock()
	defer pc.mu.Unlock()
	return pc.closed || len(pc.elems) > 0 && pc.elems[len(pc.elems)-1].Kind == "eof"
}

func vfC04RunWS(run *vfkit.Run, cs *vfC04Case) {
	tag := cs.Transport + ":" + cs.Cert
	var tcfg *tls.Config
	if cs.Transport == "wss" {
		tcfg = vfC04ServerTLS(cs.Cert)
	}
	peer := vfNewWSPeer(tcfg, func(w *vfWSConn) {
		vfWSNegotiate(w, false, true)
		for {
			if _, err := w.Read(); err != nil {
				return
			}
		}
	})
	defer peer.Stop()
	addr := strings.Replace(peer.URL(), "127.0.0.1", vfC04Domain, 1)
	c, _, err := vfNewClient(vfClientOpt{Addr: addr, Jid: "test@" + vfC04Domain, Insecure: cs.Insecure, Domain: vfC04Domain}, nil)
	if err != nil {
		run.Inconclusive("newclient")
		return
	}
	cerr := c.Connect()
	if cerr == nil {
		// (Disconnect after a failed WebSocket dial dereferences a nil connection in the library - outside C04, see DESIGN)
		go c.Disconnect()
	}
	time.Sleep(20 * time.Millisecond)
	var got []string
	for _, wc := range peer.Conns() {
		got = append(got, wc.Received()...)
	}
	all := strings.Join(got, "\n")
	switch {
	case cs.Transport == "ws" && !cs.Insecure:
		if m := vfC04Sensitive(all); m != "" || cerr == nil {
			run.Violation("C04/cleartext-secret:"+tag, fmt.Sprintf("ws:// with Insecure=false: peer received %q, Connect returned %v", m, cerr), cs)
			return
		}
	case cs.Transport == "wss" && cs.Cert != "valid":
		if m := vfC04Sensitive(all); m != "" || cerr == nil {
			run.Violation("C04/secret-over-unverified-tls:"+tag, fmt.Sprintf("wss:// with certificate %q: peer received %q, Connect returned %v", cs.Cert, m, cerr), cs)
			return
		}
	default:
		if cerr != nil || !strings.Contains(all, "<auth") {
			run.Violation("C04/valid-tls-rejected:"+tag, fmt.Sprintf("positive control failed: %v", cerr), cs)
			return
		}
		run.Count("positive_control_ws", 1)
	}
	run.Nontrivial(fmt.Sprintf("%+v", *cs))
}

func TestVf_C04(t *testing.T) {
	run := vfkit.Open("C04", "client settings {Insecure} x {TLSConfig nil, RootCAs=test CA, InsecureSkipVerify} x {ServerName unset, =domain, =another name} x peer {STARTTLS absent/offered/required} "+
		"x {proceed, failure, garbage, close} x certificate {valid, valid for both names, other host, untrusted issuer, expired, self-signed}; the peer always offers PLAIN and accepts credentials over any channel; "+
		"also as second connection after a secure first session (Resume), and over ws:// / wss://; oracle on the peer's raw clear-text and in-TLS logs; non-trivial = distinct case whose logs were inspected")
	defer run.Close()
	// the wss positive control needs the test CA in the process-wide default HTTP transport (websocket.Dial uses it)
	if tr, ok := http.DefaultTransport.(*http.Transport); ok {
		tr.TLSClientConfig = &tls.Config{RootCAs: vfGetPKI().Pool}
	}
	var rc vfC04Case
	if run.ReplayCase(&rc) {
		run.Case(rc)
		if rc.Transport == "tcp" || rc.Transport == "" {
			vfC04RunTCP(run, &rc)
		} else {
			vfC04RunWS(run, &rc)
		}
		return
	}
	var cases []*vfC04Case
	for _, ins := range []bool{false, true} {
		for _, ct := range []string{"nil", "rootcas", "skipverify", "rootcas+hook", "rootcas+connhook"} {
			for _, sn := range []string{"", "domain", "alt"} {
				for _, offer := range []string{"absent", "offered", "required"} {
					if offer == "absent" {
						cases = append(cases, &vfC04Case{Insecure: ins, ClientTLS: ct, ServerName: sn, Offer: offer, Reply: "proceed", Cert: "valid", Transport: "tcp"})
						continue
					}
					for _, reply := range []string{"proceed", "failure", "garbage", "close"} {
						if reply != "proceed" {
							cases = append(cases, &vfC04Case{Insecure: ins, ClientTLS: ct, ServerName: sn, Offer: offer, Reply: reply, Cert: "valid", Transport: "tcp"})
							continue
						}
						for _, cert := range []string{"valid", "valid-both", "otherhost", "untrusted", "expired", "selfsigned"} {
							cases = append(cases, &vfC04Case{Insecure: ins, ClientTLS: ct, ServerName: sn, Offer: offer, Reply: reply, Cert: cert, Transport: "tcp"})
						}
					}
				}
			}
		}
	}
	// an address literal as the account's domain
	for _, ct := range []string{"nil", "rootcas", "rootcas+hook"} {
		for _, offer := range []string{"offered", "required"} {
			for _, cert := range []string{"valid", "valid-both", "selfsigned", "untrusted"} {
				cases = append(cases, &vfC04Case{Insecure: false, ClientTLS: ct, Offer: offer, Reply: "proceed", Cert: cert, Transport: "tcp", DomainIP: true})
			}
		}
	}
	// reconnect scenario: every peer behaviour again on the second connection
	for _, ins := range []bool{false, true} {
		for _, offer := range []string{"absent", "offered", "required"} {
			for _, reply := range []string{"proceed", "failure", "garbage", "close"} {
				certs := []string{"valid-both"}
				if reply == "proceed" && offer != "absent" {
					certs = []string{"valid-both", "otherhost", "untrusted", "expired", "selfsigned"}
				}
				for _, cert := range certs {
					cases = append(cases, &vfC04Case{Insecure: ins, ClientTLS: "rootcas", Offer: offer, Reply: reply, Cert: cert, Reconnect: true, Transport: "tcp"})
				}
				if offer == "absent" {
					break
				}
			}
		}
	}
	for _, ins := range []bool{false, true} {
		cases = append(cases, &vfC04Case{Insecure: ins, Transport: "ws", Cert: "none"})
		for _, cert := range []string{"valid", "untrusted", "otherhost", "expired", "selfsigned"} {
			cases = append(cases, &vfC04Case{Insecure: ins, Transport: "wss", Cert: cert})
		}
	}
	for i, c := range cases {
		if c.Transport == "tcp" && !c.Insecure && !c.Reconnect && i%3 == 0 {
			c.SilentClose = true
		}
	}
	// every TCP case also with the traffic logger on (it sits between the session and the socket)
	for _, c := range append([]*vfC04Case(nil), cases...) {
		if c.Transport == "tcp" {
			d := *c
			d.Logger = true
			cases = append(cases, &d)
		}
	}
	if !vfkit.Thorough() {
		// quick: every (setting, behaviour) pair at least once: keep a seed-chosen third, plus all reconnect and websocket cases
		r := vfkit.Rand(4)
		var keep []*vfC04Case
		for _, c := range cases {
			if (c.Reconnect && !c.Logger) || c.Transport != "tcp" || (c.DomainIP && !c.Logger) || r.Intn(4) == 0 {
				keep = append(keep, c)
			}
		}
		cases = keep
	} else {
		run.Exhaustive(true)
	}
	run.Extra("cases", len(cases))
	var wg sync.WaitGroup
	workers := 16
	for wk := 0; wk < workers; wk++ {
		wg.Add(1)
		go func(wk int) {
			defer wg.Done()
			for i := wk; i < len(cases) && !run.Enough(); i += workers {
				run.Case(cases[i])
				if i < 3 {
					run.Sample(cases[i])
				}
				if cases[i].Transport == "tcp" {
					vfC04RunTCP(run, cases[i])
				} else {
					vfC04RunWS(run, cases[i])
				}
			}
		}(wk)
	}
	wg.Wait()
	if run.Counter("positive_control_auth_inside_tls") == 0 || run.Counter("positive_control_auth_in_clear") == 0 {
		run.Inconclusive("positive-controls-missing")
	}
	if run.NViolations() > 0 {
		t.Fail()
	}
}

package xmpp

// C07 — IQ responses reach the SendIQ caller exactly once; duplicates and races are harmless.
// Layer 1: linearizability of the pending-request table (porcupine) + at-most-once safety.
// Layer 2: end-to-end SendIQ with the response arriving while the request is still being written.
// Layer 3: bounded progress: nothing stays blocked in route, channels are closed, the table empties.

import (
	"context"
	"encoding/xml"
	"fmt"
	"io"
	"math/rand"
	"strings"
	"sync"
	"sync/atomic"
	"testing"
	"time"

	"github.com/anishathalye/porcupine"
	"gosrc.io/xmpp/stanza"
	"vfkit"
)

type vfIQOp struct {
	Kind   string `json:"kind"` // reg resp cancel
	Id     string `json:"id"`
	Reg    int    `json:"reg,omitempty"`    // registration number (reg, cancel)
	Serial int    `json:"serial,omitempty"` // resp
	// output of resp
	Where string `json:"where,omitempty"` // chan | routes | lost | pending
	To    int    `json:"to,omitempty"`    // registration whose channel yielded it
	// registrations of this id whose context was cancelled before this response's routing returned:
	// the response may have claimed such a request and then, the request being given up, been routed normally
	GaveUp []int `json:"gaveup,omitempty"`
}

type vfIQRec struct {
	Worker int    `json:"w"`
	Op     vfIQOp `json:"op"`
	Call   int64  `json:"call"`
	Ret    int64  `json:"ret"`
}

type vfReg struct {
	n       int
	id      string
	ch      chan stanza.IQ
	cancel  context.CancelFunc
	abandon bool
	mu      sync.Mutex
	got     []int // serials received
	closed  bool
}

var vfIQModel = porcupine.Model{
	Partition: func(h []porcupine.Operation) [][]porcupine.Operation {
		m := map[string][]porcupine.Operation{}
		var keys []string
		for _, o := range h {
			id := o.Input.(vfIQOp).Id
			if _, ok := m[id]; !ok {
				keys = append(keys, id)
			}
			m[id] = append(m[id], o)
		}
		var out [][]porcupine.Operation
		for _, k := range keys {
			out = append(out, m[k])
		}
		return out
	},
	Init: func() interface{} { return 0 },
	Step: func(state, input, output interface{}) (bool, interface{}) {
		st := state.(int)
		in := input.(vfIQOp)
		switch in.Kind {
		case "reg":
			return true, in.Reg
		case "cancel":
			if st == in.Reg {
				return true, 0
			}
			return true, st
		case "resp":
			out := output.(vfIQOp)
			switch out.Where {
			case "chan":
				return st != 0 && st == out.To, 0
			case "routes":
				if st == 0 {
					return true, st
				}
				for _, g := range out.GaveUp {
					if g == st {
						return true, 0 // claimed the pending request, which was cancelled before delivery
					}
				}
				return false, st
			}
			return false, st
		}
		return false, st
	},
	Equal: func(a, b interface{}) bool { return a.(int) == b.(int) },
	DescribeOperation: func(in, out interface{}) string {
		i := in.(vfIQOp)
		o, _ := out.(vfIQOp)
		return fmt.Sprintf("%s(%s reg=%d serial=%d) -> %s %d", i.Kind, i.Id, i.Reg, i.Serial, o.Where, o.To)
	},
}

type vfC07Case struct {
	Seed    int64 `json:"seed"`
	Workers int   `json:"workers"`
	Ops     int   `json:"ops"`
}

func vfRespIQ(id string, serial int, typ string) *stanza.IQ {
	return &stanza.IQ{XMLName: xml.Name{Local: "iq"}, Attrs: stanza.Attrs{Type: stanza.StanzaType(typ), Id: id, From: fmt.Sprintf("serial-%d", serial)}}
}

func vfSerialOf(iq stanza.IQ) int {
	var s int
	fmt.Sscanf(iq.From, "serial-%d", &s)
	return s
}

// vfC07Table runs one short concurrent history against a fresh Router.
func vfC07Table(run *vfkit.Run, cs vfC07Case) {
	router := NewRouter()
	var mu sync.Mutex
	routed := map[int]int{} // serial -> times seen by the ordinary routes
	router.NewRoute().HandlerFunc(func(s Sender, p stanza.Packet) {
		if iq, ok := p.(*stanza.IQ); ok {
			mu.Lock()
			routed[vfSerialOf(*iq)]++
			mu.Unlock()
		}
	})
	snd := &vfRecSender{}
	var regs []*vfReg
	var rmu sync.Mutex
	var recs []vfIQRec
	var serialCtr, regCtr int
	shared := "shared"
	histDone := make(chan struct{})
	defer close(histDone)
	var wg sync.WaitGroup
	var regBlocked int32
	var pendingResp sync.WaitGroup
	panicCh := make(chan string, 64)
	for w := 0; w < cs.Workers; w++ {
		wg.Add(1)
		go func(w int) {
			defer wg.Done()
			r := rand.New(rand.NewSource(cs.Seed*131 + int64(w)))
			private := fmt.Sprintf("p%d", w)
			var myReg *vfReg
			for i := 0; i < cs.Ops; i++ {
				switch k := r.Intn(10); {
				case k < 3: // register (private id, or the shared one)
					id := private
					if r.Intn(4) == 0 {
						id = shared
					}
					if id == private && myReg != nil {
						// a caller re-uses an id only after giving up the previous request (its context ended)
						call := vfTick()
						myReg.cancel()
						rmu.Lock()
						recs = append(recs, vfIQRec{Worker: w, Op: vfIQOp{Kind: "cancel", Id: myReg.id, Reg: myReg.n}, Call: call, Ret: 0})
						rmu.Unlock()
						myReg = nil
					}
					ctx, cancel := context.WithCancel(context.Background())
					rmu.Lock()
					regCtr++
					rg := &vfReg{n: regCtr, id: id, cancel: cancel, abandon: r.Intn(8) == 0}
					regs = append(regs, rg)
					rmu.Unlock()
					call := vfTick()
					// registering a request takes the table's lock for a moment; it must not have to wait for some other
					// request's response to find its reader (a SendIQ that blocks behind an unread response)
					got := make(chan chan stanza.IQ, 1)
					go func() { got <- router.NewIQResultRoute(ctx, id) }()
					select {
					case rg.ch = <-got:
					case <-time.After(20 * time.Second):
						atomic.StoreInt32(&regBlocked, 1)
						return
					}
					ret := vfTick()
					rmu.Lock()
					recs = append(recs, vfIQRec{Worker: w, Op: vfIQOp{Kind: "reg", Id: id, Reg: rg.n}, Call: call, Ret: ret})
					rmu.Unlock()
					if !rg.abandon {
						go func() { // the SendIQ caller reading its channel
							for {
								select {
								case v, ok := <-rg.ch:
									if !ok {
										rg.mu.Lock()
										rg.closed = true
										rg.mu.Unlock()
										return
									}
									rg.mu.Lock()
									rg.got = append(rg.got, vfSerialOf(v))
									rg.mu.Unlock()
								case <-histDone:
									return
								}
							}
						}()
					}
					if id == private {
						myReg = rg
					}
				case k < 8: // a response arrives on the receive path
					ids := []string{private, shared, fmt.Sprintf("p%d", r.Intn(cs.Workers)), "nobody"}
					id := ids[r.Intn(len(ids))]
					rmu.Lock()
					serialCtr++
					serial := serialCtr
					rmu.Unlock()
					typ := "result"
					if r.Intn(3) == 0 {
						typ = "error"
					}
					iq := vfRespIQ(id, serial, typ)
					done := make(chan struct{})
					call := vfTick()
					pendingResp.Add(1)
					go func() {
						defer pendingResp.Done()
						defer close(done)
						defer func() {
							if p := recover(); p != nil {
								panicCh <- fmt.Sprint(p)
							}
						}()
						router.route(snd, iq)
					}()
					// route blocks while the receiver is not reading: wait for the return only briefly, the op stays open otherwise
					returned := false
					select {
					case <-done:
						returned = true
					case <-time.After(20 * time.Millisecond):
					}
					ret := int64(0)
					if returned {
						ret = vfTick()
					}
					rmu.Lock()
					recs = append(recs, vfIQRec{Worker: w, Op: vfIQOp{Kind: "resp", Id: id, Serial: serial}, Call: call, Ret: ret})
					rmu.Unlock()
				default: // cancel the context of my pending registration
					if myReg != nil {
						call := vfTick()
						myReg.cancel()
						rmu.Lock()
						recs = append(recs, vfIQRec{Worker: w, Op: vfIQOp{Kind: "cancel", Id: myReg.id, Reg: myReg.n}, Call: call, Ret: 0})
						rmu.Unlock()
						myReg = nil
					}
				}
				if r.Intn(3) == 0 {
					time.Sleep(0)
				}
			}
		}(w)
	}
	wg.Wait()
	if atomic.LoadInt32(&regBlocked) == 1 {
		// release whatever is stuck, then report
		rmu.Lock()
		for _, rg := range regs {
			rg.cancel()
		}
		rmu.Unlock()
		run.Violation("C07/registration-blocked-behind-unread-response", "NewIQResultRoute (the first thing SendIQ does) did not return within 20 s: the pending-request table stayed locked while a response waited for a caller that is not reading", cs)
		return
	}
	select {
	case p := <-panicCh:
		run.Violation("C07/panic-in-route", "route panicked: "+p, cs)
		return
	default:
	}
	// end of history: every request context ends (timeout / cancellation)
	endCancel := vfTick()
	rmu.Lock()
	for _, rg := range regs {
		rg.cancel()
	}
	rmu.Unlock()
	// layer 3: bounded progress
	settled := vfWaitUntil(10*time.Second, func() bool { return !vfRouterBusy(router) })
	if !settled {
		blocked := ""
		needle := fmt.Sprintf("gosrc.io/xmpp.(*Router).route(%p", router)
		for _, g := range vfGoroutines() {
			if strings.Contains(g.Text, needle) {
				blocked = g.State
			}
		}
		run.Violation("C07/route-blocked-forever", fmt.Sprintf("all request contexts are cancelled and nobody reads the abandoned channel, yet a goroutine is still inside Router.route (%s): packet processing is blocked forever", blocked), cs)
		return
	}
	select {
	case p := <-panicCh:
		run.Violation("C07/panic-in-route", "route panicked: "+p, cs)
		return
	default:
	}
	emptied := vfWaitUntil(10*time.Second, func() bool {
		router.IQResultRouteLock.RLock()
		defer router.IQResultRouteLock.RUnlock()
		return len(router.IQResultRoutes) == 0
	})
	if !emptied {
		run.Violation("C07/pending-entry-never-removed", "pending table not empty after every context ended", cs)
		return
	}
	// A response whose routing has returned was handed to a reader or to the ordinary routes; the reader goroutine
	// records it a moment after the hand-off. Wait for the accounting to be complete before judging (bounded; a
	// response that is still unaccounted for after that is lost).
	accounted := func() bool {
		seen := map[int]bool{}
		for _, rg := range regs {
			rg.mu.Lock()
			for _, s := range rg.got {
				seen[s] = true
			}
			rg.mu.Unlock()
		}
		mu.Lock()
		for s := range routed {
			seen[s] = true
		}
		mu.Unlock()
		for _, rc := range recs {
			if rc.Op.Kind == "resp" && rc.Ret != 0 && !seen[rc.Op.Serial] {
				return false
			}
		}
		return true
	}
	vfWaitUntil(5*time.Second, accounted)
	// where did each response surface?
	where := map[int]vfIQOp{}
	dup := ""
	for _, rg := range regs {
		rg.mu.Lock()
		if len(rg.got) > 1 {
			dup = fmt.Sprintf("channel of registration %d (%s) yielded %d values %v", rg.n, rg.id, len(rg.got), rg.got)
		}
		for _, s := range rg.got {
			if _, ok := where[s]; ok {
				dup = fmt.Sprintf("response serial %d surfaced twice", s)
			}
			where[s] = vfIQOp{Where: "chan", To: rg.n}
		}
		// a channel that delivered must have been closed afterwards (all routes have returned: the close has happened
		// or never will; the reader goroutine notices it a moment later)
		delivered, closedSeen, got := len(rg.got) >= 1, rg.closed, append([]int(nil), rg.got...)
		rg.mu.Unlock()
		if delivered && !closedSeen {
			if !vfWaitUntil(3*time.Second, func() bool { rg.mu.Lock(); defer rg.mu.Unlock(); return rg.closed }) {
				run.Violation("C07/channel-not-closed-after-delivery", fmt.Sprintf("registration %d (%s) delivered %v but its channel is still open", rg.n, rg.id, got), cs)
				return
			}
		}
		rg.mu.Lock()
		rg.mu.Unlock()
	}
	mu.Lock()
	for s, n := range routed {
		if n > 1 {
			dup = fmt.Sprintf("response serial %d was routed %d times", s, n)
		}
		if _, ok := where[s]; ok {
			dup = fmt.Sprintf("response serial %d reached both a channel and the ordinary routes", s)
		}
		where[s] = vfIQOp{Where: "routes"}
	}
	mu.Unlock()
	if dup != "" {
		run.Violation("C07/delivered-more-than-once", dup, map[string]interface{}{"case": cs, "history": recs})
		return
	}
	// porcupine on ids without clashes and without abandoned registrations
	clash := map[string]bool{}
	abandoned := map[string]bool{}
	for _, rg := range regs {
		if rg.id == shared {
			clash[rg.id] = true
		}
		if rg.abandon {
			abandoned[rg.id] = true
		}
	}
	// a response to a request whose caller never read its channel has nowhere to go but the ordinary routes, once the
	// request's context has ended (every context has, by now): it may not vanish
	for _, rc := range recs {
		if rc.Op.Kind == "resp" && rc.Ret != 0 && abandoned[rc.Op.Id] && !clash[rc.Op.Id] {
			if _, ok := where[rc.Op.Serial]; !ok {
				run.Violation("C07/response-lost:abandoned-request", fmt.Sprintf("response serial %d for id %s: the routing call returned, the caller never read the request's channel and its context has ended - the response reached neither the channel nor the ordinary routes", rc.Op.Serial, rc.Op.Id), map[string]interface{}{"case": cs, "history": recs})
				return
			}
			run.Count("responses_to_abandoned_requests_accounted", 1)
		}
	}
	var ops []porcupine.Operation
	end := vfTick() + 1000
	nresp := 0
	cancelCall := map[int]int64{} // registration -> logical time its context was cancelled
	for _, rg := range regs {
		cancelCall[rg.n] = endCancel
	}
	for _, rc := range recs {
		if rc.Op.Kind == "cancel" && rc.Call < cancelCall[rc.Op.Reg] {
			cancelCall[rc.Op.Reg] = rc.Call
		}
	}
	regsOf := map[string][]int{}
	for _, rg := range regs {
		regsOf[rg.id] = append(regsOf[rg.id], rg.n)
	}
	for _, rc := range recs {
		if clash[rc.Op.Id] || abandoned[rc.Op.Id] {
			continue
		}
		out := rc.Op
		ret := rc.Ret
		if rc.Op.Kind == "resp" {
			o, ok := where[rc.Op.Serial]
			if !ok {
				run.Violation("C07/response-lost", fmt.Sprintf("response serial %d for id %s reached neither a channel nor the routes although every reader was reading", rc.Op.Serial, rc.Op.Id), map[string]interface{}{"case": cs, "history": recs})
				return
			}
			out = o
			nresp++
		}
		if ret == 0 {
			ret = end // still open at the end of the history (cancel: asynchronous effect; resp: was blocked)
		}
		if rc.Op.Kind == "resp" && out.Where == "routes" {
			for _, n := range regsOf[rc.Op.Id] {
				if cancelCall[n] < ret {
					out.GaveUp = append(out.GaveUp, n)
				}
			}
		}
		ops = append(ops, porcupine.Operation{ClientId: rc.Worker, Input: rc.Op, Call: rc.Call, Output: out, Return: ret})
	}
	res, _ := porcupine.CheckOperationsVerbose(vfIQModel, ops, 20*time.Second)
	switch res {
	case porcupine.Illegal:
		// find the shape: which resp is inexplicable
		run.Violation("C07/not-linearizable", "the recorded history of register/response/cancel operations has no sequential explanation: a response went to the ordinary routes while its request was pending, or to a cancelled/other request", map[string]interface{}{"case": cs, "history": recs, "where": fmt.Sprint(where)})
		return
	case porcupine.Unknown:
		run.Inconclusive("porcupine-timeout")
		return
	}
	run.Count("histories_linearizable", 1)
	run.Count("operations_checked", int64(len(ops)))
	run.Count("responses_placed", int64(nresp))
	run.Nontrivial(fmt.Sprintf("%d|%v", cs.Seed, where))
}

// ---------------------------------------------------------------------------------------------
// layer 2: end-to-end

type vfDelayRW struct {
	inner  io.ReadWriter
	before func(p []byte)
}

func (d *vfDelayRW) Read(p []byte) (int, error) { return d.inner.Read(p) }
func (d *vfDelayRW) Write(p []byte) (int, error) {
	if d.before != nil {
		d.before(p)
	}
	return d.inner.Write(p)
}

type vfC07E2E struct {
	Mode string `json:"mode"` // client | component
	Seed int64  `json:"seed"`
	N    int    `json:"n"`
	Dup  bool   `json:"dup"` // the peer answers twice back-to-back
}

func vfC07EndToEnd(run *vfkit.Run, cs vfC07E2E) {
	router := NewRouter()
	obs := &vfObs{}
	obs.catchAll(router)
	trigger := make(chan string, 16)
	ready := make(chan struct{})
	var perr error
	peer := vfNewPeer(func(pc *vfPeerConn) {
		if cs.Mode == "component" {
			if _, err := pc.Expect("stream"); err != nil {
				perr = err
				close(ready)
				return
			}
			pc.Send(vfStreamHeader("jabber:component:accept", "cid", "comp.localhost"))
			if _, err := pc.Expect("handshake"); err != nil {
				perr = err
				close(ready)
				return
			}
			pc.Send("<handshake/>")
		} else {
			if _, err := pc.Negotiate(&vfNeg{Bind: true, ExpectPresence: true}); err != nil {
				perr = err
				close(ready)
				return
			}
		}
		close(ready)
		go func() {
			for {
				e, err := pc.Next()
				if err != nil {
					return
				}
				if e.Kind == "close" {
					pc.Send("</stream:stream>")
				}
			}
		}()
		nresp := 0
		for id := range trigger {
			// who the response claims to come from is not part of the matching: a pending request is found by its id
			// (servers normalise addresses, answer for their users, or leave the attribute out)
			nresp++
			from := []string{` from="server"`, ` from="SERVER"`, ` from="server/resource"`, ``, ` from="other.example"`}[nresp%5]
			resp := fmt.Sprintf(`<iq type="result" id="%s"%s><query xmlns="jabber:iq:version"><name>n</name></query></iq>`, id, from)
			if cs.Dup {
				resp += resp
			}
			pc.Send(resp)
		}
	})
	defer peer.Stop()
	var sender StreamClient
	var hook *func(p []byte)
	var cl *Client
	if cs.Mode == "component" {
		comp, _ := NewComponent(ComponentOptions{TransportConfiguration: TransportConfiguration{Address: peer.Addr(), ConnectTimeout: 1}, Domain: "comp.localhost", Secret: "s"}, router, obs.onError)
		if err := comp.Connect(); err != nil {
			run.Inconclusive("connect")
			return
		}
		xt := comp.transport.(*XMPPTransport)
		d := &vfDelayRW{inner: xt.readWriter}
		xt.readWriter = d // read by writers only; the receive loop reads through the decoder built at Connect
		hook = &d.before
		sender = comp
	} else {
		c, _, err := vfNewClient(vfClientOpt{Addr: peer.Addr(), Insecure: true}, router)
		if err != nil {
			run.Inconclusive("newclient")
			return
		}
		c.ErrorHandler = obs.onError
		tap := vfInstallTap(c)
		var fn func(p []byte)
		tap.BeforeWrite = func(p []byte) error {
			if fn != nil {
				fn(p)
			}
			return nil
		}
		hook = &fn
		if err := c.Connect(); err != nil {
			run.Inconclusive("connect")
			return
		}
		sender = c
		cl = c
	}
	_ = cl
	<-ready
	if perr != nil {
		run.Inconclusive("peer-script")
		return
	}
	defer func() { close(trigger); go sender.Disconnect() }()
	for i := 0; i < cs.N; i++ {
		id := fmt.Sprintf("req-%d-%d", cs.Seed, i)
		// when the request bytes enter Write: make the peer answer, and hold the write until the answer has been routed
		// (a write may return arbitrarily late)
		*hook = func(p []byte) {
			if !strings.Contains(string(p), id) {
				return
			}
			trigger <- id
			vfWaitUntil(5*time.Second, func() bool {
				for _, h := range obs.Handled() {
					if h == id {
						return true // surfaced at the ordinary routes
					}
				}
				return vfRouterBusy(router) // or it is waiting to be delivered on the request's channel
			})
		}
		iq, _ := stanza.NewIQ(stanza.Attrs{Type: "get", Id: id, To: "server"})
		iq.Payload = &stanza.Version{}
		ctx, cancel := context.WithTimeout(context.Background(), 20*time.Second)
		ch, err := sender.SendIQ(ctx, iq)
		*hook = nil
		if err != nil {
			cancel()
			run.Violation("C07/e2e:sendiq-error:"+cs.Mode, err.Error(), cs)
			return
		}
		var got []string
		deadline := time.After(10 * time.Second)
	recvLoop:
		for {
			select {
			case v, ok := <-ch:
				if !ok {
					break recvLoop
				}
				got = append(got, v.Id)
			case <-deadline:
				break recvLoop
			}
		}
		cancel()
		wantRoutes := 0
		if cs.Dup {
			wantRoutes = 1 // the duplicate is routed like any other packet
		}
		countRoutes := func() int {
			n := 0
			for _, h := range obs.Handled() {
				if h == id {
					n++
				}
			}
			return n
		}
		// let the duplicate surface (it may still be in the receive buffer), then let routing settle
		vfWaitUntil(5*time.Second, func() bool { return countRoutes() >= wantRoutes })
		vfWaitUntil(3*time.Second, func() bool { return !vfRouterBusy(router) })
		nRoutes := countRoutes()
		if len(got) != 1 || got[0] != id {
			k := "C07/e2e:response-not-on-request-channel:" + cs.Mode
			if len(got) > 1 {
				k = "C07/e2e:delivered-more-than-once:" + cs.Mode
			}
			run.Violation(k, fmt.Sprintf("request %s answered while its bytes were being written: channel yielded %v, ordinary routes saw it %d times", id, got, nRoutes), cs)
			return
		}
		if nRoutes != wantRoutes {
			run.Violation("C07/e2e:duplicate-handling:"+cs.Mode, fmt.Sprintf("request %s: channel got it once, ordinary routes saw it %d times (expected %d)", id, nRoutes, wantRoutes), cs)
			return
		}
		run.Count("e2e_requests_"+cs.Mode, 1)
	}
	if cs.Mode != "component" {
		// a response nobody reads yet (the caller is busy; its context is alive) must not hold up the packets behind it:
		// a client routes every packet on its own
		hid := fmt.Sprintf("held-%d", cs.Seed)
		iq, _ := stanza.NewIQ(stanza.Attrs{Type: "get", Id: hid, To: "server"})
		iq.Payload = &stanza.Version{}
		ctx, cancel := context.WithTimeout(context.Background(), 60*time.Second)
		ch, err := sender.SendIQ(ctx, iq)
		if err != nil {
			cancel()
			run.Violation("C07/e2e:sendiq-error:"+cs.Mode, err.Error(), cs)
			return
		}
		trigger <- hid
		if vfWaitUntil(10*time.Second, func() bool { return vfRouterBusy(router) }) {
			after := fmt.Sprintf("after-held-%d", cs.Seed)
			trigger <- after
			ok := vfWaitUntil(10*time.Second, func() bool {
				for _, h := range obs.Handled() {
					if h == after {
						return true
					}
				}
				return false
			})
			if !ok && ctx.Err() == nil {
				cancel()
				run.Violation("C07/e2e:unread-response-stalls-receive-loop:"+cs.Mode, "a response is waiting for its SendIQ caller (context alive, channel not read yet); the packet the server sent after it was not routed within 10s", cs)
				return
			}
			select {
			case v, ok := <-ch:
				if !ok || v.Id != hid {
					cancel()
					run.Violation("C07/e2e:response-not-on-request-channel:"+cs.Mode, fmt.Sprintf("the held response was not delivered when the caller finally read the channel (got %q, open=%v)", v.Id, ok), cs)
					return
				}
			case <-time.After(10 * time.Second):
				cancel()
				run.Violation("C07/e2e:response-not-on-request-channel:"+cs.Mode, "the held response never arrived on the request's channel", cs)
				return
			}
			run.Count("unread_responses_not_blocking", 1)
		} else {
			run.Inconclusive("held-response-not-seen-waiting")
		}
		cancel()
	}
	// the receive path still works (component: recv is not stuck in route)
	sent := fmt.Sprintf("sentinel-%d", cs.Seed)
	trigger <- sent
	if !vfWaitUntil(10*time.Second, func() bool {
		for _, h := range obs.Handled() {
			if h == sent {
				return true
			}
		}
		return false
	}) {
		run.Violation("C07/e2e:receive-loop-stuck:"+cs.Mode, "a stanza sent after the IQ exchanges was never routed", cs)
		return
	}
	run.Nontrivial(fmt.Sprintf("e2e|%s|%d|%v", cs.Mode, cs.Seed, cs.Dup))
}

func TestVf_C07(t *testing.T) {
	run := vfkit.Open("C07", "layer 1: 3-6 workers x 6-12 operations over register / response (matching, duplicate, foreign, unknown id) / cancel on 1 private id per worker + 1 shared id, "+
		"some registrations abandoned; history recorded at the API boundary with one logical clock and checked with porcupine per id (clashing and abandoned ids: at-most-once safety only); "+
		"layer 2: SendIQ on Client and Component with the response injected while the request is inside Transport.Write, also duplicated; layer 3: after all contexts end nothing stays in Router.route, "+
		"delivered channels are closed, the table is empty; non-trivial = history with >=1 response placed / e2e exchange completed")
	defer run.Close()
	var rc vfC07Case
	if run.ReplayCase(&rc) && rc.Workers > 0 {
		for i := 0; i < 200; i++ {
			run.Case(rc)
			vfC07Table(run, rc)
			if run.NViolations() > 0 {
				break
			}
		}
		return
	}
	var re vfC07E2E
	if run.ReplayCase(&re) && re.Mode != "" {
		run.Case(re)
		vfC07EndToEnd(run, re)
		return
	}
	// layer 2 first (deterministic)
	ne := vfkit.Pick(6, 40)
	for i := 0; i < ne; i++ {
		cs := vfC07E2E{Mode: []string{"client", "component"}[i%2], Seed: vfkit.Seed()*100 + int64(i), N: vfkit.Pick(5, 20), Dup: i%4 >= 2}
		run.Case(cs)
		vfC07EndToEnd(run, cs)
	}
	n := vfkit.Pick(3000, 100000)
	par := 4
	var wg sync.WaitGroup
	for p := 0; p < par; p++ {
		wg.Add(1)
		go func(p int) {
			defer wg.Done()
			for c := p; c < n; c += par {
				if run.NViolations() >= 6 {
					return // enough witnesses; every further failing history costs a watchdog
				}
				r := rand.New(rand.NewSource(vfkit.Seed()*999983 + int64(c)))
				cs := vfC07Case{Seed: vfkit.Seed()*999983 + int64(c), Workers: 3 + r.Intn(4), Ops: 6 + r.Intn(7)}
				if c%200 == 0 {
					run.Case(cs)
				} else {
					run.CaseQuiet()
				}
				if c < 2 {
					run.Sample(cs)
				}
				vfC07Table(run, cs)
			}
		}(p)
	}
	wg.Wait()
	if run.NViolations() > 0 {
		t.Fail()
	}
}

package xmpp

// WebSocket peer (RFC 7395 framing) built on the server side of nhooyr.io/websocket, already a dependency of go-xmpp.

import (
	"context"
	"crypto/tls"
	"net"
	"net/http"
	"regexp"
	"sync"
	"time"

	"nhooyr.io/websocket"
)

type vfWSConn struct {
	c    *websocket.Conn
	ctx  context.Context
	mu   sync.Mutex
	recv []string // every text message received, in order
	N    int
}

func (w *vfWSConn) Read() (string, error) {
	_, b, err := w.c.Read(w.ctx)
	if err != nil {
		return "", err
	}
	w.mu.Lock()
	w.recv = append(w.recv, string(b))
	w.mu.Unlock()
	return string(b), nil
}

func (w *vfWSConn) Received() []string {
	w.mu.Lock()
	defer w.mu.Unlock()
	return append([]string(nil), w.recv...)
}

func (w *vfWSConn) Send(s string) error {
	return w.c.Write(w.ctx, websocket.MessageText, []byte(s))
}

// SendFragmented sends one message split over len(parts) frames.
func (w *vfWSConn) SendFragmented(parts ...string) error {
	wr, err := w.c.Writer(w.ctx, websocket.MessageText)
	if err != nil {
		return err
	}
	for _, p := range parts {
		if _, err := wr.Write([]byte(p)); err != nil {
			return err
		}
	}
	return wr.Close()
}

func (w *vfWSConn) Close() { w.c.Close(websocket.StatusNormalClosure, "bye") }

// CloseWith performs the closing handshake with the given status; it returns once the client has answered it (or the
// library's own timeout has passed).
func (w *vfWSConn) CloseWith(code int, reason string) { w.c.Close(websocket.StatusCode(code), reason) }

type vfWSPeer struct {
	ln            net.Listener
	srv           *http.Server
	handler       func(w *vfWSConn)
	mu            sync.Mutex
	conns         []*vfWSConn
	wg            sync.WaitGroup
	scheme        string
	NoSubprotocol bool
}

func vfNewWSPeer(tlsCfg *tls.Config, handler func(w *vfWSConn)) *vfWSPeer {
	ln, err := net.Listen("tcp", "127.0.0.1:0")
	if err != nil {
		panic(err)
	}
	p := &vfWSPeer{ln: ln, handler: handler, scheme: "ws"}
	if tlsCfg != nil {
		p.ln = tls.NewListener(ln, tlsCfg)
		p.scheme = "wss"
	}
	p.srv = &http.Server{Handler: http.HandlerFunc(p.serve)}
	go p.srv.Serve(p.ln)
	return p
}

func (p *vfWSPeer) serve(rw http.ResponseWriter, r *http.Request) {
	opts := &websocket.AcceptOptions{Subprotocols: []string{"xmpp"}}
	if p.NoSubprotocol {
		opts = &websocket.AcceptOptions{}
	}
	c, err := websocket.Accept(rw, r, opts)
	if err != nil {
		return
	}
	c.SetReadLimit(1 << 20)
	ctx, cancel := context.WithTimeout(context.Background(), 120*time.Second)
	defer cancel()
	w := &vfWSConn{c: c, ctx: ctx}
	p.mu.Lock()
	w.N = len(p.conns)
	p.conns = append(p.conns, w)
	p.mu.Unlock()
	p.wg.Add(1)
	defer p.wg.Done()
	p.handler(w)
	c.Close(websocket.StatusNormalClosure, "")
}

func (p *vfWSPeer) URL() string { return p.scheme + "://" + p.ln.Addr().String() + "/xmpp-websocket" }

func (p *vfWSPeer) Conns() []*vfWSConn {
	p.mu.Lock()
	defer p.mu.Unlock()
	return append([]*vfWSConn(nil), p.conns...)
}

func (p *vfWSPeer) Stop() {
	ctx, cancel := context.WithTimeout(context.Background(), 2*time.Second)
	defer cancel()
	p.srv.Shutdown(ctx)
	p.srv.Close()
	p.mu.Lock()
	cs := append([]*vfWSConn(nil), p.conns...)
	p.mu.Unlock()
	for _, c := range cs {
		c.c.Close(websocket.StatusGoingAway, "")
	}
	p.wg.Wait()
}

var vfIdAttr = regexp.MustCompile(`\bid=(["'])([^"']*)["']`)

const vfWSOpen = `<open xmlns="urn:ietf:params:xml:ns:xmpp-framing" id="wsid" from="localhost" version="1.0"/>`

// vfWSNegotiate plays a successful negotiation over WebSocket (no STARTTLS there): open, features, auth, open, features, bind.
func vfWSNegotiate(w *vfWSConn, sm bool, expectPresence bool) error {
	if _, err := w.Read(); err != nil { // <open/>
		return err
	}
	w.Send(vfWSOpen)
	w.Send(`<stream:features xmlns:stream="http://etherx.jabber.org/streams"><mechanisms xmlns="urn:ietf:params:xml:ns:xmpp-sasl"><mechanism>PLAIN</mechanism></mechanisms></stream:features>`)
	if _, err := w.Read(); err != nil { // <auth/>
		return err
	}
	w.Send(`<success xmlns="urn:ietf:params:xml:ns:xmpp-sasl"/>`)
	if _, err := w.Read(); err != nil { // <open/>
		return err
	}
	w.Send(vfWSOpen)
	f := `<stream:features xmlns:stream="http://etherx.jabber.org/streams"><bind xmlns="urn:ietf:params:xml:ns:xmpp-bind"/>`
	if sm {
		f += `<sm xmlns="urn:xmpp:sm:3"/>`
	}
	w.Send(f + `</stream:features>`)
	bindReq, err := w.Read() // bind iq
	if err != nil {
		return err
	}
	id := "1"
	if m := vfIdAttr.FindStringSubmatch(bindReq); m != nil {
		id = m[2]
	}
	w.Send(`<iq xmlns="jabber:client" type="result" id="` + id + `"><bind xmlns="urn:ietf:params:xml:ns:xmpp-bind"><jid>test@localhost/ws</jid></bind></iq>`)
	if sm {
		if _, err := w.Read(); err != nil { // enable
			return err
		}
		w.Send(`<enabled xmlns="urn:xmpp:sm:3" id="wssm" resume="true"/>`)
	}
	if expectPresence {
		if _, err := w.Read(); err != nil {
			return err
		}
	}
	return nil
}

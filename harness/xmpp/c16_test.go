package xmpp

// C16 — component handshake digest is exact; success requires the server's <handshake/>.

import (
	"crypto/sha1"
	"encoding/hex"
	"fmt"
	"math/rand"
	"strings"
	"sync"
	"testing"
	"time"

	"vfkit"
)

type vfC16Case struct {
	StreamID string `json:"stream_id"`
	Secret   string `json:"secret"`
	Reply    string `json:"reply"`
	// Prior: the judged handshake is the second one of the same Component value - after a first stream (another id,
	// confirmed by the server) that was then lost; Component.Resume() connects again
	Prior   bool   `json:"prior,omitempty"`
	PriorID string `json:"prior_id,omitempty"`
	// Reconnecting: the application's event handler reacts to a stream error the way StreamManager.Run's handler does -
	// disconnect and, unless the error is a conflict, connect again at once (from inside the failing call). The
	// server accepts that next connection. Whatever the handler does, a refused handshake is a refused handshake.
	Reconnecting bool `json:"reconnecting,omitempty"`
}

var vfC16Replies = []string{"handshake", "handshake", "handshake-text", "stream-error:not-authorized", "stream-error:host-unknown", "stream-error:conflict", "stream-error:vf-unknown",
	"stanza", "sasl-success", "sm-element", "malformed", "close", "rst", "features", "unknown-ns-then-handshake", "unknown-ns-only", "unknown-name-then-handshake",
	"truncated-in-content", "truncated-in-start-tag", "truncated-in-end-tag", "truncated-with-child"}

func vfAttrEsc(s string) string {
	r := strings.NewReplacer("&", "&amp;", "<", "&lt;", ">", "&gt;", "'", "&apos;", "\"", "&quot;", "\n", "&#10;", "\r", "&#13;", "\t", "&#9;")
	return r.Replace(s)
}

func vfC16Run(run *vfkit.Run, cs *vfC16Case) {
	var hsText string
	var got bool
	var mu sync.Mutex
	sentAfter := make(chan struct{})
	release := make(chan struct{})
	peer := vfNewPeer(func(pc *vfPeerConn) {
		if cs.Prior && pc.N == 0 {
			if _, err := pc.Expect("stream"); err != nil {
				return
			}
			pc.Send(fmt.Sprintf("<?xml version='1.0'?><stream:stream xmlns:stream='http://etherx.jabber.org/streams' xmlns='jabber:component:accept' from='comp.localhost' id='%s'>", vfAttrEsc(cs.PriorID)))
			if e, err := pc.Next(); err != nil || !e.Is("", "handshake") {
				return
			}
			pc.Send("<handshake/>")
			<-release
			pc.Close()
			return
		}
		judged := 0
		if cs.Prior {
			judged = 1
		}
		if pc.N > judged { // a connection the handler opened on its own: a healthy server accepts it
			if _, err := pc.Expect("stream"); err != nil {
				return
			}
			pc.Send("<?xml version='1.0'?><stream:stream xmlns:stream='http://etherx.jabber.org/streams' xmlns='jabber:component:accept' from='comp.localhost' id='nested'>")
			if e, err := pc.Next(); err != nil || !e.Is("", "handshake") {
				return
			}
			pc.Send("<handshake/><message id='after-nested-handshake' from='x@y' to='comp.localhost'><body>hi</body></message>")
			pc.idle = 500 * time.Millisecond
			for {
				if e, err := pc.Next(); err != nil || e.Kind == "close" {
					return
				}
			}
		}
		defer close(sentAfter)
		if _, err := pc.Expect("stream"); err != nil {
			return
		}
		pc.Send(fmt.Sprintf("<?xml version='1.0'?><stream:stream xmlns:stream='http://etherx.jabber.org/streams' xmlns='jabber:component:accept' from='comp.localhost' id='%s'>", vfAttrEsc(cs.StreamID)))
		e, err := pc.Next()
		if err != nil || !e.Is("", "handshake") {
			return
		}
		mu.Lock()
		hsText, got = e.Text, true
		mu.Unlock()
		stanzaAfter := "<message id='after-handshake' from='x@y' to='comp.localhost'><body>hi</body></message>"
		pc.idle = 500 * time.Millisecond
		switch {
		case cs.Reply == "handshake":
			pc.Send("<handshake/>" + stanzaAfter)
		case cs.Reply == "handshake-text":
			pc.Send("<handshake>ok</handshake>" + stanzaAfter)
		case strings.HasPrefix(cs.Reply, "stream-error:"):
			pc.Send("<stream:error><" + strings.TrimPrefix(cs.Reply, "stream-error:") + " xmlns='urn:ietf:params:xml:ns:xmpp-streams'/></stream:error>" + stanzaAfter + "</stream:stream>")
		case cs.Reply == "stanza":
			pc.Send(stanzaAfter + stanzaAfter)
		case cs.Reply == "sasl-success":
			pc.Send("<success xmlns='" + vfNSSASL + "'/>" + stanzaAfter)
		case cs.Reply == "sm-element":
			pc.Send("<enabled xmlns='urn:xmpp:sm:3' id='x'/>" + stanzaAfter)
		case cs.Reply == "features":
			pc.Send("<stream:features/>" + stanzaAfter)
		case cs.Reply == "unknown-ns-then-handshake":
			pc.Send("<notice xmlns='urn:vf:unknown'>maintenance<handshake xmlns='jabber:component:accept'/></notice><handshake/>" + stanzaAfter)
		case cs.Reply == "unknown-ns-only":
			pc.Send("<notice xmlns='urn:vf:unknown'>maintenance</notice>")
		case cs.Reply == "unknown-name-then-handshake":
			pc.Send("<shakehand/><handshake/>" + stanzaAfter)
		case cs.Reply == "truncated-in-content": // the connection dies after the start tag was delivered
			pc.Send("<handshake>0123")
			pc.Close()
			return
		case cs.Reply == "truncated-in-start-tag":
			pc.Send("<handshake xmlns='jabber:component:acc")
			pc.Close()
			return
		case cs.Reply == "truncated-in-end-tag":
			pc.Send("<handshake></handsh")
			pc.Close()
			return
		case cs.Reply == "truncated-with-child":
			pc.Send("<handshake><x>")
			pc.Close()
			return
		case cs.Reply == "malformed":
			pc.Send("<handshake <<")
		case cs.Reply == "rst":
			pc.RST()
			return
		default:
			pc.Close()
			return
		}
		for {
			e, err := pc.Next()
			if err != nil {
				return
			}
			if e.Kind == "close" {
				pc.Send("</stream:stream>")
				return
			}
		}
	})
	defer peer.Stop()
	router := NewRouter()
	obs := &vfObs{}
	obs.catchAll(router)
	comp, _ := NewComponent(ComponentOptions{TransportConfiguration: TransportConfiguration{Address: peer.Addr(), ConnectTimeout: 1}, Domain: "comp.localhost", Secret: cs.Secret}, router, obs.onError)
	comp.SetHandler(obs.onEvent)
	if cs.Reconnecting {
		comp.SetHandler(func(e Event) error {
			obs.onEvent(e)
			if e.State.state == StateStreamError {
				comp.Disconnect()
				if e.StreamError != "conflict" {
					return comp.Resume()
				}
			}
			return nil
		})
		run.Count("cases_with_reconnecting_handler", 1)
	}
	var cerr error
	if cs.Prior {
		if err := comp.Connect(); err != nil {
			close(release)
			run.Inconclusive("prior-stream-failed")
			return
		}
		close(release)
		if !vfWaitUntil(10*time.Second, func() bool { return obs.CountState(StateDisconnected) >= 1 }) {
			run.Inconclusive("prior-stream-not-lost")
			go comp.Disconnect()
			return
		}
		obs.reset()
		cerr = comp.Resume()
		run.Count("second_handshakes_judged", 1)
	} else {
		close(release)
		cerr = comp.Connect()
	}
	mu.Lock()
	text, seen := hsText, got
	mu.Unlock()
	tag := cs.Reply
	if i := strings.Index(tag, ":"); i > 0 {
		tag = tag[:i]
	}
	if !seen {
		if cerr == nil {
			run.Violation("C16/success-without-handshake-sent", "Connect returned nil but the peer never received a <handshake/>", cs)
		} else {
			run.Inconclusive("no-handshake-seen")
		}
		go comp.Disconnect()
		return
	}
	sum := sha1.Sum([]byte(cs.StreamID + cs.Secret))
	want := hex.EncodeToString(sum[:])
	if text != want {
		k := "C16/digest-wrong"
		if strings.EqualFold(text, want) {
			k = "C16/digest-not-lower-case"
		}
		run.Violation(k, fmt.Sprintf("stream id %q secret %q: handshake %q, want lower-case hex SHA-1(id+secret) = %q", cs.StreamID, vfClip2(cs.Secret, 40), text, want), cs)
		go comp.Disconnect()
		return
	}
	run.Count("digests_exact", 1)
	okReply := cs.Reply == "handshake" || cs.Reply == "handshake-text"
	established := obs.CountState(StateSessionEstablished)
	if okReply {
		if cerr != nil || established != 1 {
			run.Violation("C16/handshake-reply-rejected", fmt.Sprintf("server answered <handshake/>: Connect returned %v, established events %d", cerr, established), cs)
			go comp.Disconnect()
			return
		}
		// the stanza that follows must be routed
		if !vfWaitUntil(10*time.Second, func() bool { return len(obs.Handled()) >= 1 }) {
			run.Violation("C16/stanza-after-handshake-not-routed", "established, but the stanza following <handshake/> never reached the router", cs)
		}
		run.Count("established", 1)
	} else {
		if cerr == nil {
			run.Violation("C16/success-without-handshake-reply:"+tag, fmt.Sprintf("server answered %q instead of <handshake/> but Connect returned nil", cs.Reply), cs)
			go comp.Disconnect()
			return
		}
		if established != 0 || comp.CurrentState.getState() == StateSessionEstablished {
			run.Violation("C16/established-state-on-failure:"+tag, fmt.Sprintf("Connect failed (%v) but the state says established", cerr), cs)
			go comp.Disconnect()
			return
		}
		<-sentAfter
		time.Sleep(5 * time.Millisecond)
		if n := len(obs.Handled()); n != 0 {
			run.Violation("C16/stanza-routed-without-handshake:"+tag, fmt.Sprintf("%d stanzas were routed although the handshake was never confirmed", n), cs)
			go comp.Disconnect()
			return
		}
		run.Count("refused", 1)
	}
	go comp.Disconnect()
	run.Nontrivial(fmt.Sprintf("%+v", *cs))
}

func TestVf_C16(t *testing.T) {
	run := vfkit.Open("C16", "stream ids over attribute-legal text (entities, quotes, non-ASCII, whitespace, 0-200 characters) x secrets (hostile text, empty, long) "+
		"x reply {handshake, handshake with text, stream error of several kinds, stanza, SASL element, SM element, features, malformed, close, RST}; oracle: SHA-1 recomputed by the harness from the unescaped id; "+
		"established iff <handshake/>; non-trivial = distinct case with an exact digest")
	defer run.Close()
	var rc vfC16Case
	if run.ReplayCase(&rc) {
		run.Case(rc)
		vfC16Run(run, &rc)
		return
	}
	n := vfkit.Pick(400, 10000)
	var wg sync.WaitGroup
	workers := 16
	for wk := 0; wk < workers; wk++ {
		wg.Add(1)
		go func(wk int) {
			defer wg.Done()
			for c := wk; c < n && !run.Enough(); c += workers {
				r := rand.New(rand.NewSource(vfkit.Seed()*2750159 + int64(c)))
				cs := &vfC16Case{Reply: vfC16Replies[r.Intn(len(vfC16Replies))]}
				switch r.Intn(6) {
				case 0:
					cs.StreamID = ""
				case 1:
					cs.StreamID = strings.Repeat(vfkit.Text(r, 10, false), 1+r.Intn(20))
					if len([]rune(cs.StreamID)) > 200 {
						cs.StreamID = string([]rune(cs.StreamID)[:200])
					}
				case 2:
					cs.StreamID = fmt.Sprintf("%d", r.Int63())
				default:
					cs.StreamID = vfkit.Text(r, 24, false)
				}
				switch r.Intn(5) {
				case 0:
					cs.Secret = ""
				case 1:
					cs.Secret = strings.Repeat("s3cr&t<", r.Intn(100))
				default:
					cs.Secret = vfkit.Text(r, 20, true)
				}
				cs.Reconnecting = r.Intn(3) == 0
				if r.Intn(4) == 0 {
					cs.Prior = true
					cs.PriorID = vfkit.Text(r, 16, false)
				}
				run.Case(cs)
				if c < 3 {
					run.Sample(cs)
				}
				vfC16Run(run, cs)
			}
		}(wk)
	}
	wg.Wait()
	if run.NViolations() > 0 {
		t.Fail()
	}
}

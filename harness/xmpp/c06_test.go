package xmpp

// C06 — router runs only the first matching route; unhandled IQ requests get one error.
// Reference route interpreter (three-valued where the documentation is silent).

import (
	"context"
	"encoding/xml"
	"fmt"
	"math/rand"
	"strings"
	"sync"
	"sync/atomic"
	"testing"

	"gosrc.io/xmpp/stanza"
	"vfkit"
)

// a harness payload registered under a mixed-case namespace (namespaces are opaque strings)
type vfMixedPayload struct {
	XMLName xml.Name `xml:"urn:Vf:Mixed query"`
	V       string   `xml:"v,attr,omitempty"`
}

func (p *vfMixedPayload) Namespace() string         { return p.XMLName.Space }
func (p *vfMixedPayload) GetSet() *stanza.ResultSet { return nil }

func init() {
	stanza.TypeRegistry.MapExtension(stanza.PKTIQ, xml.Name{Space: "urn:Vf:Mixed", Local: "query"}, vfMixedPayload{})
}

type vfMatcherSpec struct {
	Kind string   `json:"kind"` // packet | type | ns
	Args []string `json:"args"`
}
type vfRouteSpec struct {
	Matchers []vfMatcherSpec `json:"matchers"`
}
type vfPacketSpec struct {
	Kind  string `json:"kind"` // message presence iq nonza
	XML   string `json:"xml"`
	Type  string `json:"type"`
	Id    string `json:"id"`
	From  string `json:"from"`
	To    string `json:"to"`
	NS    string `json:"ns"`    // namespace of the registered payload, "" if none
	AnyNS string `json:"anyns"` // namespace of an unregistered payload
}
type vfC06Case struct {
	Routes []vfRouteSpec `json:"routes"`
	Packet vfPacketSpec  `json:"packet"`
	// Before: packets routed through the same router before Packet (routing must not depend on earlier traffic)
	Before []vfPacketSpec `json:"before,omitempty"`
	// RealClient: a non-stanza packet is routed with a real *Client as the sender instead of a recording stub
	RealClient bool `json:"real_client,omitempty"`
	// Late: the last Late routes of the table are registered only after the Before packets have been routed (an
	// application may add a route at any time; from then on it is part of the table)
	Late int `json:"late,omitempty"`
}

type vfRecSender struct {
	mu   sync.Mutex
	sent []stanza.Packet
	raw  []string
	iqs  []*stanza.IQ
}

func (s *vfRecSender) Send(p stanza.Packet) error {
	s.mu.Lock()
	s.sent = append(s.sent, p)
	s.mu.Unlock()
	return nil
}
func (s *vfRecSender) SendIQ(ctx context.Context, iq *stanza.IQ) (chan stanza.IQ, error) {
	s.mu.Lock()
	s.iqs = append(s.iqs, iq)
	s.mu.Unlock()
	return make(chan stanza.IQ), nil
}
func (s *vfRecSender) SendRaw(p string) error {
	s.mu.Lock()
	s.raw = append(s.raw, p)
	s.mu.Unlock()
	return nil
}

var vfKnownNS = []string{"http://jabber.org/protocol/disco#info", "http://jabber.org/protocol/disco#items", "jabber:iq:version", "jabber:iq:roster", "urn:Vf:Mixed", "urn:ietf:params:xml:ns:xmpp-bind"}
var vfPayloadXML = map[string]string{
	"http://jabber.org/protocol/disco#info":  `<query xmlns="http://jabber.org/protocol/disco#info"/>`,
	"http://jabber.org/protocol/disco#items": `<query xmlns="http://jabber.org/protocol/disco#items" node="n"/>`,
	"jabber:iq:version":                      `<query xmlns="jabber:iq:version"><name>x</name></query>`,
	"jabber:iq:roster":                       `<query xmlns="jabber:iq:roster"/>`,
	"urn:Vf:Mixed":                           `<query xmlns="urn:Vf:Mixed" v="1"/>`,
	"urn:ietf:params:xml:ns:xmpp-bind":       `<bind xmlns="urn:ietf:params:xml:ns:xmpp-bind"><jid>a@b/c</jid></bind>`,
}

func vfCaseVariant(r *rand.Rand, s string) string {
	switch r.Intn(4) {
	case 0:
		return strings.ToUpper(s)
	case 1:
		if len(s) > 0 {
			return strings.ToUpper(s[:1]) + s[1:]
		}
	}
	return s
}

func vfGenRoutes(r *rand.Rand) []vfRouteSpec {
	n := r.Intn(9)
	var out []vfRouteSpec
	for i := 0; i < n; i++ {
		var rs vfRouteSpec
		m := r.Intn(4)
		if r.Intn(8) == 0 {
			m = 0 // catch-all at any position
		}
		for j := 0; j < m; j++ {
			switch r.Intn(3) {
			case 0:
				names := []string{"message", "presence", "iq", "other"}
				rs.Matchers = append(rs.Matchers, vfMatcherSpec{Kind: "packet", Args: []string{vfCaseVariant(r, names[r.Intn(len(names))])}})
			case 1:
				types := []string{"chat", "normal", "groupchat", "headline", "error", "get", "set", "result", "subscribe", "unavailable", "probe"}
				k := 1 + r.Intn(3)
				var a []string
				for x := 0; x < k; x++ {
					a = append(a, vfCaseVariant(r, types[r.Intn(len(types))]))
				}
				rs.Matchers = append(rs.Matchers, vfMatcherSpec{Kind: "type", Args: a})
			case 2:
				k := 1 + r.Intn(2)
				var a []string
				for x := 0; x < k; x++ {
					ns := vfKnownNS[r.Intn(len(vfKnownNS))]
					if r.Intn(6) == 0 {
						ns = strings.ToUpper(ns)
					}
					if r.Intn(10) == 0 {
						ns = "urn:vf:unregistered"
					}
					a = append(a, ns)
				}
				rs.Matchers = append(rs.Matchers, vfMatcherSpec{Kind: "ns", Args: a})
			}
		}
		out = append(out, rs)
	}
	return out
}

func vfGenPacket(r *rand.Rand, n int) vfPacketSpec {
	p := vfPacketSpec{Id: fmt.Sprintf("id%d", n), From: "peer@example.org/r", To: "me@example.net/x"}
	if r.Intn(5) == 0 {
		p.From = ""
	}
	if r.Intn(5) == 0 {
		p.To = ""
	}
	attrs := func() string {
		s := ""
		if p.Type != "" {
			s += fmt.Sprintf(` type="%s"`, p.Type)
		}
		if p.Id != "" {
			s += fmt.Sprintf(` id="%s"`, p.Id)
		}
		if p.From != "" {
			s += fmt.Sprintf(` from="%s"`, p.From)
		}
		if p.To != "" {
			s += fmt.Sprintf(` to="%s"`, p.To)
		}
		return s
	}
	switch r.Intn(10) {
	case 0, 1:
		p.Kind = "message"
		p.Type = []string{"", "", "chat", "normal", "groupchat", "headline", "error"}[r.Intn(7)]
		p.XML = "<message" + attrs() + "><body>hi</body></message>"
	case 2, 3:
		p.Kind = "presence"
		p.Type = []string{"", "unavailable", "subscribe", "probe", "error"}[r.Intn(5)]
		p.XML = "<presence" + attrs() + "><show>away</show></presence>"
	case 4:
		p.Kind = "nonza"
		p.XML = []string{`<r xmlns="urn:xmpp:sm:3"/>`, `<a xmlns="urn:xmpp:sm:3" h="0"/>`, `<a xmlns="urn:xmpp:sm:3" h="3"/>`, `<enabled xmlns="urn:xmpp:sm:3" id="x"/>`, `<success xmlns="urn:ietf:params:xml:ns:xmpp-sasl"/>`,
			`<stream:features><bind xmlns="urn:ietf:params:xml:ns:xmpp-bind"/></stream:features>`, `<stream:error><conflict xmlns="urn:ietf:params:xml:ns:xmpp-streams"/></stream:error>`}[r.Intn(7)]
	default:
		p.Kind = "iq"
		p.Type = []string{"get", "set", "result", "error", "get", "set"}[r.Intn(6)]
		if r.Intn(12) == 0 {
			// not one of the four defined types: whatever else it is, it is not a request
			p.Type = []string{"", "Get", "SET", "probe", "subscribe", "get "}[r.Intn(6)]
		}
		body := ""
		switch r.Intn(5) {
		case 0: // no payload
		case 1: // unregistered payload -> Any
			p.AnyNS = []string{"urn:vf:unregistered", "jabber:iq:private", "urn:VF:Other"}[r.Intn(3)]
			body = fmt.Sprintf(`<query xmlns="%s"><x/></query>`, p.AnyNS)
		default:
			p.NS = vfKnownNS[r.Intn(len(vfKnownNS))]
			body = vfPayloadXML[p.NS]
		}
		if p.Type == "error" {
			body += `<error type="cancel"><item-not-found xmlns="urn:ietf:params:xml:ns:xmpp-stanzas"/></error>`
		}
		p.XML = "<iq" + attrs() + ">" + body + "</iq>"
	}
	return p
}

func vfParseOne(x string) (stanza.Packet, error) {
	d := xml.NewDecoder(strings.NewReader(`<stream:stream xmlns="jabber:client" xmlns:stream="http://etherx.jabber.org/streams">` + x))
	if _, err := stanza.InitStream(d); err != nil {
		return nil, err
	}
	return stanza.NextPacket(d)
}

// three-valued reference: 1 true, 0 false, -1 documentation silent
func vfRefMatcher(m vfMatcherSpec, p vfPacketSpec) int {
	switch m.Kind {
	case "packet":
		if p.Kind == "nonza" {
			return 0
		}
		if strings.ToLower(m.Args[0]) == p.Kind {
			return 1
		}
		return 0
	case "type":
		if p.Kind == "nonza" {
			return 0
		}
		t := p.Type
		if p.Kind == "message" && t == "" {
			t = "normal"
		}
		for _, a := range m.Args {
			if strings.ToLower(a) == t { // packet types are generated lower-case
				return 1
			}
		}
		return 0
	case "ns":
		if p.Kind != "iq" {
			return 0
		}
		res := 0
		for _, a := range m.Args {
			if p.NS != "" {
				if a == p.NS {
					return 1
				}
				if strings.EqualFold(a, p.NS) {
					res = -1 // differs only in letter case: silent
				}
			} else if p.AnyNS != "" && strings.EqualFold(a, p.AnyNS) {
				res = -1 // unregistered payload under a namespace matcher: silent
			}
		}
		return res
	}
	return 0
}

func vfRefRoute(cs vfC06Case) (idx int, decided bool) {
	for i, rt := range cs.Routes {
		all := 1
		for _, m := range rt.Matchers {
			v := vfRefMatcher(m, cs.Packet)
			if v == 0 {
				all = 0
				break
			}
			if v == -1 {
				all = -1
			}
		}
		if all == 1 {
			return i, true
		}
		if all == -1 {
			return -1, false
		}
	}
	return -1, true
}

func vfC06Run(run *vfkit.Run, cs vfC06Case) {
	defer func() {
		if p := recover(); p != nil {
			run.Violation("C06/panic", fmt.Sprintf("panic %v", p), cs)
		}
	}()
	pkt, err := vfParseOne(cs.Packet.XML)
	if err != nil {
		run.Inconclusive("packet-did-not-parse")
		return
	}
	router := NewRouter()
	var mu sync.Mutex
	var calls []int
	var callPkts []stanza.Packet
	addRoute := func(i int, rs vfRouteSpec) {
		h := HandlerFunc(func(s Sender, p stanza.Packet) {
			mu.Lock()
			calls = append(calls, i)
			callPkts = append(callPkts, p)
			mu.Unlock()
		})
		// the convenience constructors are part of the documented API: use them when the route starts with a name matcher
		if len(rs.Matchers) >= 1 && rs.Matchers[0].Kind == "packet" && i%2 == 1 {
			var rt *Route
			if i%4 == 1 {
				rt = router.HandleFunc(rs.Matchers[0].Args[0], h)
			} else {
				rt = router.Handle(rs.Matchers[0].Args[0], h)
			}
			for _, m := range rs.Matchers[1:] {
				args := append([]string(nil), m.Args...)
				switch m.Kind {
				case "packet":
					rt.Packet(args[0])
				case "type":
					rt.StanzaType(args...)
				case "ns":
					rt.IQNamespaces(args...)
				}
			}
			return
		}
		rt := router.NewRoute()
		for _, m := range rs.Matchers {
			args := append([]string(nil), m.Args...) // the library lower-cases the slice it is given in place
			switch m.Kind {
			case "packet":
				rt.Packet(args[0])
			case "type":
				rt.StanzaType(args...)
			case "ns":
				rt.IQNamespaces(args...)
			}
		}
		rt.HandlerFunc(h)
	}
	late := cs.Late
	if late > len(cs.Routes) || len(cs.Before) == 0 {
		late = 0
	}
	for i, rs := range cs.Routes[:len(cs.Routes)-late] {
		addRoute(i, rs)
	}
	snd := &vfRecSender{}
	want, decided := vfRefRoute(cs)
	// A packet that is not a stanza gives rise to no reply, so it can just as well arrive through a real Client (which
	// is what happens in production; the router does some stream-management bookkeeping of its own for a Client)
	var sender Sender = snd
	if cs.Packet.Kind == "nonza" && cs.RealClient {
		rc, err := NewClient(&Config{TransportConfiguration: TransportConfiguration{Address: "127.0.0.1:1"}, Jid: "me@example.net/x", Credential: Password("x"), Insecure: true, StreamManagementEnable: true}, router, func(error) {})
		if err == nil {
			rc.Session = &Session{SMState: SMState{UnAckQueue: stanza.NewUnAckQueue()}}
			sender = rc
			run.Count("nonstanza_packets_routed_for_a_real_client", 1)
		}
	}
	for _, b := range cs.Before {
		if bp, err := vfParseOne(b.XML); err == nil {
			router.route(&vfRecSender{}, bp)
		}
	}
	for i := len(cs.Routes) - late; i < len(cs.Routes); i++ {
		addRoute(i, cs.Routes[i])
	}
	if late > 0 {
		run.Count("packets_routed_after_a_late_registration", 1)
	}
	mu.Lock()
	calls, callPkts = nil, nil
	mu.Unlock()
	router.route(sender, pkt)
	if !decided {
		run.Count("undecided_by_documentation", 1)
		return
	}
	shape := cs.Packet.Kind
	if cs.Packet.Kind == "iq" {
		shape += ":" + cs.Packet.Type
	}
	if want >= 0 {
		run.Count("matched", 1)
		if len(calls) != 1 || calls[0] != want {
			k := "C06/wrong-handler"
			switch {
			case len(calls) == 0:
				k = "C06/no-handler-ran"
			case len(calls) > 1:
				k = "C06/several-handlers-ran"
			}
			// classify the matcher kinds of the expected route for a stable signature
			kinds := ""
			for _, m := range cs.Routes[want].Matchers {
				kinds += m.Kind[:1]
				if m.Kind == "ns" && cs.Packet.NS != strings.ToLower(cs.Packet.NS) {
					for _, a := range m.Args {
						if a == cs.Packet.NS {
							kinds = "identical-mixed-case-namespace"
						}
					}
				}
				if strings.HasPrefix(kinds, "identical") {
					break
				}
			}
			if strings.HasPrefix(kinds, "identical") {
				shape = "iq"
			}
			run.Violation(k+":"+shape+":"+kinds, fmt.Sprintf("reference says route %d, handlers that ran: %v", want, calls), cs)
			return
		}
		if a, ok := callPkts[0].(*stanza.IQ); ok {
			if b, ok2 := pkt.(*stanza.IQ); !ok2 || a != b {
				run.Violation("C06/handler-got-other-packet", "handler received a different packet value", cs)
			}
		}
		if len(snd.sent)+len(snd.raw)+len(snd.iqs) != 0 {
			run.Violation("C06/reply-on-matched:"+shape, fmt.Sprintf("router sent %d packets although a route matched", len(snd.sent)+len(snd.raw)+len(snd.iqs)), cs)
		}
		run.Nontrivial(fmt.Sprintf("%v|%s", cs.Routes, cs.Packet.XML))
		return
	}
	run.Count("unmatched", 1)
	if len(calls) != 0 {
		run.Violation("C06/handler-ran-on-unmatched:"+shape, fmt.Sprintf("reference says no route matches, handlers that ran: %v", calls), cs)
		return
	}
	isReq := cs.Packet.Kind == "iq" && (cs.Packet.Type == "get" || cs.Packet.Type == "set")
	total := len(snd.sent) + len(snd.raw) + len(snd.iqs)
	if !isReq {
		if total != 0 {
			run.Violation("C06/reply-to-non-request:"+shape, fmt.Sprintf("router sent %d packets for an unmatched %s", total, shape), cs)
		}
		run.Nontrivial(fmt.Sprintf("%v|%s", cs.Routes, cs.Packet.XML))
		return
	}
	run.Count("auto_error_replies_checked", 1)
	if len(snd.sent) != 1 || total != 1 {
		run.Violation("C06/iq-error-count:"+shape, fmt.Sprintf("unmatched IQ %s: %d replies sent (want exactly 1)", cs.Packet.Type, total), cs)
		return
	}
	// judge the reply by its wire form, as the peer would see it
	b, err := xml.Marshal(snd.sent[0])
	if err != nil {
		run.Violation("C06/iq-error-unmarshalable", err.Error(), cs)
		return
	}
	rp, err := vfParseOne(string(b))
	riq, ok := rp.(*stanza.IQ)
	if err != nil || !ok {
		run.Violation("C06/iq-error-not-iq", fmt.Sprintf("reply %s parses to %T, %v", b, rp, err), cs)
		return
	}
	if riq.Type != "error" {
		run.Violation("C06/iq-error-type", fmt.Sprintf("reply %s has type %q", b, riq.Type), cs)
	}
	if riq.Id != cs.Packet.Id {
		run.Violation("C06/iq-error-id", fmt.Sprintf("reply %s: id %q, request id %q", b, riq.Id, cs.Packet.Id), cs)
	}
	if riq.From != cs.Packet.To || riq.To != cs.Packet.From {
		run.Violation("C06/iq-error-addressing", fmt.Sprintf("reply %s: from=%q to=%q, request from=%q to=%q", b, riq.From, riq.To, cs.Packet.From, cs.Packet.To), cs)
	}
	if riq.Error == nil || riq.Error.Reason != "feature-not-implemented" {
		run.Violation("C06/iq-error-condition", fmt.Sprintf("reply %s: error %+v", b, riq.Error), cs)
	}
	run.Nontrivial(fmt.Sprintf("%v|%s", cs.Routes, cs.Packet.XML))
}

func TestVf_C06(t *testing.T) {
	run := vfkit.Open("C06", "random route tables (0-8 routes, each a conjunction of 0-3 Packet/StanzaType/IQNamespaces matchers with case variants, catch-all at any position) "+
		"x packets parsed from XML (message with/without type, presence, IQ of each type with registered / unregistered / no payload, non-stanza elements); "+
		"reference first-match interpreter; non-trivial = distinct (table, packet) pair decided by the documentation")
	defer run.Close()
	var rc vfC06Case
	if run.ReplayCase(&rc) {
		run.Case(rc)
		vfC06Run(run, rc)
		return
	}
	r := vfkit.Rand(6)
	n := vfkit.Pick(20000, 2000000)
	var table []vfRouteSpec
	var history []vfPacketSpec
	for c := 0; c < n; c++ {
		// one table sees a sequence of up to 8 packets; every packet is judged with the earlier ones as its history
		if c%8 == 0 || r.Intn(16) == 0 {
			table, history = vfGenRoutes(r), nil
		}
		cs := vfC06Case{Routes: table, Packet: vfGenPacket(r, c), Before: append([]vfPacketSpec(nil), history...), RealClient: c%2 == 0, Late: []int{0, 0, 1, 2}[r.Intn(4)]}
		history = append(history, cs.Packet)
		if len(cs.Before) > 0 {
			run.Count("packets_routed_after_other_traffic", 1)
		}
		if c%2000 == 0 {
			run.Case(cs)
		} else {
			run.CaseQuiet()
		}
		if c < 3 {
			run.Sample(cs)
		}
		vfC06Run(run, cs)
	}
	// concurrent routing: a Client hands every stanza to the router on its own goroutine, so one table is asked about
	// many packets at once; each packet must still get the handler the reference names, and only that one
	for round := 0; round < vfkit.Pick(12, 400) && !run.Enough(); round++ {
		vfC06Concurrent(run, vfGenRoutes(r), r, round)
	}
	if run.NViolations() > 0 {
		t.Fail()
	}
}

func vfC06Concurrent(run *vfkit.Run, table []vfRouteSpec, r *rand.Rand, round int) {
	router := NewRouter()
	// handlers record without a lock (a slot claimed by an atomic counter), so that the goroutines really are inside
	// the router at the same time
	type rec struct {
		id    string
		route int
	}
	const G, N = 16, 5000
	recs := make([]rec, 2*G*N)
	var nrec int64
	for i, rs := range table {
		i := i
		rt := router.NewRoute()
		for _, m := range rs.Matchers {
			args := append([]string(nil), m.Args...)
			switch m.Kind {
			case "packet":
				rt.Packet(args[0])
			case "type":
				rt.StanzaType(args...)
			case "ns":
				rt.IQNamespaces(args...)
			}
		}
		rt.HandlerFunc(func(s Sender, p stanza.Packet) {
			_, id := vfPacketId(p)
			if k := atomic.AddInt64(&nrec, 1) - 1; int(k) < len(recs) {
				recs[k] = rec{id, i}
			}
		})
	}
	type job struct {
		spec vfPacketSpec
		pkt  stanza.Packet
	}
	jobs := make([][]job, G)
	for g := 0; g < G; g++ {
		for k := 0; k < N; k++ {
			ps := vfGenPacket(r, round*1000000+g*100000+k)
			if ps.Kind == "nonza" {
				continue
			}
			if pkt, err := vfParseOne(ps.XML); err == nil {
				jobs[g] = append(jobs[g], job{ps, pkt})
			}
		}
	}
	var wg sync.WaitGroup
	panicked := make(chan interface{}, G)
	for g := 0; g < G; g++ {
		wg.Add(1)
		go func(g int) {
			defer wg.Done()
			defer func() {
				if p := recover(); p != nil {
					panicked <- p
				}
			}()
			for _, j := range jobs[g] {
				router.route(&vfRecSender{}, j.pkt)
			}
		}(g)
	}
	wg.Wait()
	run.CaseQuiet()
	select {
	case p := <-panicked:
		run.Violation("C06/panic:concurrent-routing", fmt.Sprintf("panic %v while %d goroutines routed through one table", p, G), vfC06Case{Routes: table})
		return
	default:
	}
	ran := map[string][]int{}
	for k := 0; k < int(atomic.LoadInt64(&nrec)) && k < len(recs); k++ {
		ran[recs[k].id] = append(ran[recs[k].id], recs[k].route)
	}
	for g := 0; g < G; g++ {
		for _, j := range jobs[g] {
			cs := vfC06Case{Routes: table, Packet: j.spec}
			want, decided := vfRefRoute(cs)
			if !decided {
				continue
			}
			got := ran[j.spec.Id]
			if want >= 0 && (len(got) != 1 || got[0] != want) || want < 0 && len(got) != 0 {
				run.Violation("C06/wrong-handler:concurrent-routing", fmt.Sprintf("%d goroutines routing through one table: packet %s - reference says route %d, handlers that ran: %v", G, j.spec.XML, want, got), cs)
				return
			}
			run.Count("packets_routed_concurrently", 1)
		}
	}
}

package xmpp

// C14 — SASL: only an advertised, supported mechanism is used; the PLAIN payload is exact.

import (
	"encoding/base64"
	"fmt"
	"math/rand"
	"strings"
	"sync"
	"testing"
	"time"

	"golang.org/x/xerrors"
	"vfkit"
)

type vfC14Case struct {
	Local  string   `json:"local"`
	Secret string   `json:"secret"`
	Token  bool     `json:"token"` // OAuth token credential instead of a password
	Mechs  []string `json:"mechs"` // nil = no <mechanisms/> element at all
	NoMech bool     `json:"nomech"`
	Reply  string   `json:"reply"` // success | failure:<cond> | stream-error | stanza | close | challenge
	// Prior: the judged negotiation is the client's second one - after a first session on which the server offered
	// exactly the credential's mechanism and accepted it, and which was then lost (Client.Resume reuses the session)
	Prior bool `json:"prior,omitempty"`
}

var vfSaslConds = []string{"not-authorized", "aborted", "account-disabled", "credentials-expired", "invalid-authzid", "temporary-auth-failure", "mechanism-too-weak", "vf-unknown-condition"}

func vfC14Run(run *vfkit.Run, cs *vfC14Case) {
	credMech := "PLAIN"
	if cs.Token {
		credMech = "X-OAUTH2"
	}
	offered := false
	for _, m := range cs.Mechs {
		if m == credMech {
			offered = true
		}
	}
	var authElems []vfElem
	var mu sync.Mutex
	cutSent, restartAfterCut := false, false
	release := make(chan struct{})
	handlerDone := make(chan struct{})
	peerDone := func() bool {
		select {
		case <-handlerDone:
			return true
		default:
			return false
		}
	}
	peer := vfNewPeer(func(pc *vfPeerConn) {
		if cs.Prior && pc.N == 0 {
			pc.Negotiate(&vfNeg{Mechs: []string{credMech}, Bind: true, ExpectPresence: true})
			<-release
			pc.Close()
			return
		}
		if (cs.Prior && pc.N == 1) || (!cs.Prior && pc.N == 0) {
			defer close(handlerDone)
		}
		if _, err := pc.Expect("stream"); err != nil {
			return
		}
		f := "<stream:features>"
		if !cs.NoMech {
			f += "<mechanisms xmlns='" + vfNSSASL + "'>"
			for _, m := range cs.Mechs {
				f += "<mechanism>" + m + "</mechanism>"
			}
			f += "</mechanisms>"
		}
		f += "</stream:features>"
		pc.Send(vfStreamHeader("jabber:client", "c14", "localhost") + f)
		pc.idle = 0
		for {
			e, err := pc.Next()
			if err != nil {
				return
			}
			switch {
			case e.Kind == "close":
				pc.Send("</stream:stream>")
				return
			case e.Is(vfNSSASL, "auth"):
				mu.Lock()
				authElems = append(authElems, e)
				mu.Unlock()
				switch {
				case cs.Reply == "success":
					pc.Send("<success xmlns='" + vfNSSASL + "'/>")
					pc.Restart()
				case strings.HasPrefix(cs.Reply, "failure:"):
					pc.Send("<failure xmlns='" + vfNSSASL + "'><" + strings.TrimPrefix(cs.Reply, "failure:") + "/><text xml:lang='en'>denied</text></failure>")
				case cs.Reply == "stream-error":
					pc.Send("<stream:error><policy-violation xmlns='urn:ietf:params:xml:ns:xmpp-streams'/></stream:error></stream:stream>")
				case cs.Reply == "stanza":
					pc.Send("<message><body>not a sasl reply</body></message>")
					pc.idle = 400e6
				case strings.HasPrefix(cs.Reply, "success-cut"):
					// the connection is cut (the server's sending direction ends) inside the <success> element: that is
					// not a success. The peer keeps reading: a client that restarts the stream acts as authenticated.
					if cs.Reply == "success-cut" {
						pc.Send("<success xmlns='" + vfNSSASL + "'>")
					} else {
						pc.Send("<success xmlns='" + vfNSSASL + "'>dj1hYmNk")
					}
					if tc, ok := pc.raw.(interface{ CloseWrite() error }); ok {
						tc.CloseWrite()
					}
					mu.Lock()
					cutSent = true
					mu.Unlock()
					pc.idle = 1500e6
				case cs.Reply == "challenge":
					pc.Send("<challenge xmlns='" + vfNSSASL + "'>cmVhbG09ImV4YW1wbGUi</challenge>")
					pc.idle = 400e6
				default:
					pc.Close()
					return
				}
			case e.Kind == "stream":
				mu.Lock()
				if cutSent {
					restartAfterCut = true
				}
				mu.Unlock()
				pc.Send(vfStreamHeader("jabber:client", "c14b", "localhost") + "<stream:features><bind xmlns='" + vfNSBind + "'/></stream:features>")
			case e.Is("", "iq") && e.Child("bind") != nil:
				pc.Send(fmt.Sprintf("<iq type='result' id='%s'><bind xmlns='%s'><jid>x@localhost/r</jid></bind></iq>", e.Attrs["id"], vfNSBind))
			}
		}
	})
	defer peer.Stop()
	cred := Password(cs.Secret)
	if cs.Token {
		cred = OAuthToken(cs.Secret)
	}
	c, _, err := vfNewClient(vfClientOpt{Addr: peer.Addr(), Jid: cs.Local + "@localhost", Insecure: true, Cred: &cred}, nil)
	if err != nil {
		run.Count("jid_rejected_by_newclient", 1)
		return
	}
	var cerr error
	if cs.Prior {
		obs := &vfObs{}
		c.SetHandler(obs.onEvent)
		if err := c.Connect(); err != nil {
			close(release)
			run.Inconclusive("prior-session-failed")
			return
		}
		close(release)
		if !vfWaitUntil(10*time.Second, func() bool { return obs.CountState(StateDisconnected) >= 1 }) {
			run.Inconclusive("prior-session-not-lost")
			go c.Disconnect()
			return
		}
		cerr = c.Resume()
		run.Count("second_negotiations_judged", 1)
	} else {
		close(release)
		cerr = c.Connect()
	}
	go c.Disconnect()
	mu.Lock()
	auths := append([]vfElem(nil), authElems...)
	mu.Unlock()
	tag := credMech
	if cs.Prior {
		tag += ":second-negotiation"
	}
	permanent := func(e error) bool {
		var ce ConnError
		return xerrors.As(e, &ce) && ce.Permanent
	}
	if !offered {
		if len(auths) > 0 {
			run.Violation("C14/auth-with-unadvertised-mechanism:"+tag, fmt.Sprintf("server offered %v, client sent <auth mechanism=%q>", cs.Mechs, auths[0].Attrs["mechanism"]), cs)
			return
		}
		if cerr == nil || !permanent(cerr) {
			run.Violation("C14/no-common-mechanism-not-permanent:"+tag, fmt.Sprintf("server offered %v (credential needs %s): Connect returned %v, permanent=%v", cs.Mechs, credMech, cerr, cerr != nil && permanent(cerr)), cs)
			return
		}
		run.Count("no_common_mechanism_cases", 1)
		run.Nontrivial(fmt.Sprintf("%+v", *cs))
		return
	}
	if len(auths) != 1 {
		run.Violation("C14/auth-count:"+tag, fmt.Sprintf("expected exactly one <auth/>, peer received %d", len(auths)), cs)
		return
	}
	a := auths[0]
	if a.Attrs["mechanism"] != credMech {
		run.Violation("C14/wrong-mechanism:"+tag, fmt.Sprintf("credential supports %s, server offered %v, client named %q", credMech, cs.Mechs, a.Attrs["mechanism"]), cs)
		return
	}
	raw, derr := base64.StdEncoding.DecodeString(a.Text)
	want := "\x00" + cs.Local + "\x00" + cs.Secret
	if derr != nil || string(raw) != want {
		run.Violation("C14/payload-not-exact:"+tag, fmt.Sprintf("auth text %q decodes to %q (%v), want %q", vfClip2(a.Text, 80), vfClip2(string(raw), 80), derr, vfClip2(want, 80)), cs)
		return
	}
	if len(a.Children) != 0 {
		run.Violation("C14/auth-has-children", fmt.Sprintf("auth element has child elements %v", a.Children), cs)
		return
	}
	run.Count("payloads_decoded_exact", 1)
	switch {
	case cs.Reply == "success":
		if cerr != nil {
			run.Violation("C14/success-rejected:"+tag, fmt.Sprintf("<success/> but Connect returned %v", cerr), cs)
			return
		}
	case strings.HasPrefix(cs.Reply, "failure:"):
		if cerr == nil || !permanent(cerr) {
			run.Violation("C14/failure-not-permanent:"+tag, fmt.Sprintf("<failure><%s/> but Connect returned %v (permanent=%v)", strings.TrimPrefix(cs.Reply, "failure:"), cerr, cerr != nil && permanent(cerr)), cs)
			return
		}
		run.Count("failures_permanent", 1)
	case strings.HasPrefix(cs.Reply, "success-cut"):
		// let the peer read what the client wrote after the cut
		vfWaitUntil(3*time.Second, func() bool {
			mu.Lock()
			defer mu.Unlock()
			return restartAfterCut || peerDone()
		})
		mu.Lock()
		rs := restartAfterCut
		mu.Unlock()
		if rs || cerr == nil {
			run.Violation("C14/authenticated-without-complete-success:"+cs.Reply, fmt.Sprintf("the <success> element was cut off by the end of the connection, yet the client restarted the stream as if authenticated (restart seen by the peer: %v; Connect returned %v)", rs, cerr), cs)
			return
		}
		run.Count("truncated_success_refused", 1)
	default:
		if cerr == nil {
			run.Violation("C14/authenticated-without-success:"+cs.Reply, fmt.Sprintf("reply %q is not <success/> but Connect returned nil", cs.Reply), cs)
			return
		}
	}
	run.Nontrivial(fmt.Sprintf("%+v", *cs))
}

func vfGenLocal(r *rand.Rand) string {
	atoms := []string{"a", "b", "Z", "9", ".", "-", "_", "&", "+", "%", "é", "中", "\U0001F600", "\x00", "\x01", "=", "!", "~", "\\", "{", "ß", "user",
		"\u00a0", "\u200b", "\ufeff", "\u00ad", "\u3000", "\u2060"} // what SASLprep would map to a space or to nothing: the payload is the bytes as given
	n := 1 + r.Intn(6)
	var sb strings.Builder
	for i := 0; i < n; i++ {
		sb.WriteString(atoms[r.Intn(len(atoms))])
	}
	return sb.String()
}

func vfGenSecret(r *rand.Rand) string {
	switch r.Intn(6) {
	case 0:
		b := make([]byte, 1+r.Intn(40))
		r.Read(b) // arbitrary bytes, including NUL and invalid UTF-8
		return string(b)
	case 1:
		return strings.Repeat(vfkit.Text(r, 16, false), 1+r.Intn(120)) // up to ~2 KiB
	case 2:
		return "\x00" + vfkit.Text(r, 8, false) + "\x00"
	}
	return vfkit.Text(r, 24, false)
}

func TestVf_C14(t *testing.T) {
	run := vfkit.Open("C14", "local parts over every character class NewJid accepts (incl. &, NUL, non-ASCII) x secrets (arbitrary bytes incl. NUL and invalid UTF-8, XML metacharacters, ]]>, up to 2 KiB) x {password, OAuth token} "+
		"x server mechanism lists (subsets and orders of PLAIN, X-OAUTH2, SCRAM-SHA-1, DIGEST-MD5, EXTERNAL, ANONYMOUS, a made-up name; duplicates; empty; no <mechanisms/>) x reply {success, failure with each condition, stream error, stanza, challenge, close}; "+
		"oracle: the <auth/> the peer received; non-trivial = distinct case fully judged")
	defer run.Close()
	var rc vfC14Case
	if run.ReplayCase(&rc) {
		run.Case(rc)
		vfC14Run(run, &rc)
		return
	}
	n := vfkit.Pick(600, 20000)
	all := []string{"PLAIN", "X-OAUTH2", "SCRAM-SHA-1", "DIGEST-MD5", "EXTERNAL", "ANONYMOUS", "X-VF-MADEUP", "plain", "PLAIN ",
		"X-PLAIN-TOKEN", "PLAIN-OVER-TLS", "X-OAUTH2-V2", "PLAI", "OAUTH2", "SCRAM-SHA-1-PLUS"} // names that contain, or are contained in, a supported one
	var wg sync.WaitGroup
	workers := 16
	for wk := 0; wk < workers; wk++ {
		wg.Add(1)
		go func(wk int) {
			defer wg.Done()
			for c := wk; c < n && !run.Enough(); c += workers {
				r := rand.New(rand.NewSource(vfkit.Seed()*6700417 + int64(c)))
				cs := &vfC14Case{Local: vfGenLocal(r), Secret: vfGenSecret(r), Token: r.Intn(3) == 0}
				switch r.Intn(8) {
				case 0:
					cs.NoMech = true
				case 1:
					cs.Mechs = []string{}
				default:
					k := 1 + r.Intn(5)
					for i := 0; i < k; i++ {
						cs.Mechs = append(cs.Mechs, all[r.Intn(len(all))])
					}
					if r.Intn(2) == 0 { // make sure the usable mechanism is there, at a random position
						m := "PLAIN"
						if cs.Token {
							m = "X-OAUTH2"
						}
						p := r.Intn(len(cs.Mechs) + 1)
						cs.Mechs = append(cs.Mechs[:p], append([]string{m}, cs.Mechs[p:]...)...)
					}
				}
				switch r.Intn(8) {
				case 0, 1, 2:
					cs.Reply = "success"
				case 3, 4:
					cs.Reply = "failure:" + vfSaslConds[r.Intn(len(vfSaslConds))]
				case 5:
					cs.Reply = "stream-error"
				case 6:
					cs.Reply = []string{"stanza", "challenge", "success-cut", "success-cut-in-content"}[r.Intn(4)]
				default:
					cs.Reply = "close"
				}
				cs.Prior = r.Intn(4) == 0
				run.Case(cs)
				if c < 3 {
					run.Sample(cs)
				}
				vfC14Run(run, cs)
			}
		}(wk)
	}
	wg.Wait()
	// every payload length: secrets of 0..L bytes with an 8-byte local part, local parts of 1..U bytes with a 7-byte
	// secret (a fast path with a fixed-size buffer is wrong at one length only)
	L, U := vfkit.Pick(600, 5000), vfkit.Pick(260, 1000)
	type lenCase struct{ u, s int }
	var lens []lenCase
	for l := 0; l <= L; l++ {
		lens = append(lens, lenCase{8, l})
	}
	for u := 1; u <= U; u++ {
		lens = append(lens, lenCase{u, 7})
	}
	for wk := 0; wk < workers; wk++ {
		wg.Add(1)
		go func(wk int) {
			defer wg.Done()
			for c := wk; c < len(lens) && !run.Enough(); c += workers {
				lc := lens[c]
				cs := &vfC14Case{Local: strings.Repeat("u", lc.u), Secret: strings.Repeat("s", lc.s), Token: c%2 == 1, Reply: "success"}
				cs.Mechs = []string{"PLAIN"}
				if cs.Token {
					cs.Mechs = []string{"X-OAUTH2"}
				}
				run.CaseQuiet()
				vfC14Run(run, cs)
				run.Count("payload_lengths_swept", 1)
			}
		}(wk)
	}
	wg.Wait()
	if run.NViolations() > 0 {
		t.Fail()
	}
}

package xmpp

// C20 — address normalisation yields a dialable host:port and picks the right transport.

import (
	"errors"
	"fmt"
	"math/rand"
	"net"
	"strconv"
	"strings"
	"sync/atomic"
	"testing"
	"time"

	"vfkit"
)

type vfAddrCase struct {
	Host      string `json:"host"`      // host without brackets
	Bracketed bool   `json:"bracketed"` // written as [host]
	Port      int    `json:"port"`      // 0 = absent
	Kind      string `json:"kind"`      // dns, ipv4, ipv6
	Scheme    string `json:"scheme"`    // "", "ws", "wss"
}

func (c vfAddrCase) addr() string {
	if c.Scheme != "" {
		s := c.Scheme + "://" + c.hostport() + "/xmpp-websocket"
		return s
	}
	return c.hostport()
}

func (c vfAddrCase) hostport() string {
	h := c.Host
	if c.Bracketed {
		h = "[" + h + "]"
	}
	if c.Port != 0 {
		return h + ":" + strconv.Itoa(c.Port)
	}
	return h
}

func vfGenHost(r *rand.Rand) (string, string) {
	hex := func() string { return strconv.FormatInt(int64(r.Intn(0x10000)), 16) }
	switch r.Intn(10) {
	case 0, 1, 2: // DNS name
		labels := 1 + r.Intn(4)
		var ls []string
		for i := 0; i < labels; i++ {
			switch r.Intn(5) {
			case 0:
				ls = append(ls, strconv.Itoa(r.Intn(1000)))
			case 1:
				ls = append(ls, vfkit.Plain(r, 1+r.Intn(3))+"-"+vfkit.Plain(r, 1+r.Intn(3)))
			case 2:
				ls = append(ls, "xn--"+strings.ToLower(vfkit.Plain(r, 4)))
			default:
				ls = append(ls, strings.ToLower(vfkit.Plain(r, 1+r.Intn(10))))
			}
		}
		s := strings.Join(ls, ".")
		if r.Intn(5) == 0 {
			s += "."
		}
		return s, "dns"
	case 3, 4: // IPv4
		return fmt.Sprintf("%d.%d.%d.%d", r.Intn(256), r.Intn(256), r.Intn(256), r.Intn(256)), "ipv4"
	default: // IPv6 shapes
		var s string
		switch r.Intn(9) {
		case 0:
			s = "::"
		case 1:
			s = "::1"
		case 2: // full
			var g []string
			for i := 0; i < 8; i++ {
				g = append(g, hex())
			}
			s = strings.Join(g, ":")
		case 3: // compressed middle
			a, b := 1+r.Intn(3), 1+r.Intn(3)
			var g1, g2 []string
			for i := 0; i < a; i++ {
				g1 = append(g1, hex())
			}
			for i := 0; i < b; i++ {
				g2 = append(g2, hex())
			}
			s = strings.Join(g1, ":") + "::" + strings.Join(g2, ":")
		case 4: // leading compression
			s = "::" + hex() + ":" + hex()
		case 5: // trailing compression
			s = hex() + ":" + hex() + "::"
		case 6: // v4-mapped
			s = fmt.Sprintf("::ffff:%d.%d.%d.%d", r.Intn(256), r.Intn(256), r.Intn(256), r.Intn(256))
		case 7: // zone
			s = "fe80::" + hex() + "%eth" + strconv.Itoa(r.Intn(4))
		case 8: // v4-embedded full
			s = fmt.Sprintf("64:ff9b::%d.%d.%d.%d", r.Intn(256), r.Intn(256), r.Intn(256), r.Intn(256))
		}
		if r.Intn(4) == 0 {
			s = strings.ToUpper(s)
		}
		return s, "ipv6"
	}
}

func vfAddrCheck(run *vfkit.Run, cs vfAddrCase) {
	defer func() {
		if p := recover(); p != nil {
			run.Violation("C20/panic", fmt.Sprintf("panic %v on %+v", p, cs), cs)
		}
	}()
	addr := cs.addr()
	shape := cs.Kind
	if cs.Bracketed {
		shape += "-bracketed"
	}
	if cs.Port != 0 {
		shape += "-port"
	}
	if cs.Scheme != "" {
		ct := NewClientTransport(TransportConfiguration{Address: addr})
		if _, ok := ct.(*WebsocketTransport); !ok {
			run.Violation("C20/ws-scheme-not-websocket:"+cs.Scheme, fmt.Sprintf("NewClientTransport(%q) = %T", addr, ct), cs)
		} else if ct.(*WebsocketTransport).Config.Address != addr {
			run.Violation("C20/ws-address-changed", fmt.Sprintf("NewClientTransport(%q) address %q", addr, ct.(*WebsocketTransport).Config.Address), cs)
		}
		tr, err := NewComponentTransport(TransportConfiguration{Address: addr})
		if err == nil || tr != nil {
			run.Violation("C20/component-accepts-ws:"+cs.Scheme, fmt.Sprintf("NewComponentTransport(%q) = %T, %v", addr, tr, err), cs)
		} else if !errors.Is(err, ErrTransportProtocolNotSupported) {
			run.Violation("C20/component-ws-wrong-error", fmt.Sprintf("NewComponentTransport(%q) error %v is not ErrTransportProtocolNotSupported", addr, err), cs)
		}
		// a Component built on that address must refuse to connect, too
		comp, _ := NewComponent(ComponentOptions{TransportConfiguration: TransportConfiguration{Address: addr}, Domain: "c.example", Secret: "s"}, NewRouter(), func(error) {})
		if err := comp.Connect(); err == nil {
			run.Violation("C20/component-connects-ws", fmt.Sprintf("Component.Connect with %q succeeded", addr), cs)
		}
		// through the public constructor as well
		cl, err := NewClient(&Config{TransportConfiguration: TransportConfiguration{Address: addr}, Jid: "u@example.org", Credential: Password("p")}, NewRouter(), func(error) {})
		if err != nil {
			run.Violation("C20/newclient-error", fmt.Sprintf("NewClient with address %q: %v", addr, err), cs)
		} else if wt, ok := cl.transport.(*WebsocketTransport); !ok {
			run.Violation("C20/ws-scheme-not-websocket:"+cs.Scheme, fmt.Sprintf("NewClient(%q) transport %T", addr, cl.transport), cs)
		} else if wt.Config.Address != addr {
			run.Violation("C20/ws-address-changed", fmt.Sprintf("NewClient(%q) dials %q", addr, wt.Config.Address), cs)
		}
		run.Count("ws_cases", 1)
		run.Nontrivial("ws|" + addr)
		return
	}
	wantPort := "5222"
	if cs.Port != 0 {
		wantPort = strconv.Itoa(cs.Port)
	}
	verify := func(what, got string) {
		h, p, err := net.SplitHostPort(got)
		if err != nil {
			run.Violation("C20/not-host-port:"+shape, fmt.Sprintf("%s(%q) -> %q: %v", what, addr, got, err), cs)
			return
		}
		if h != cs.Host {
			run.Violation("C20/host-changed:"+shape, fmt.Sprintf("%s(%q) -> %q: host %q, want %q", what, addr, got, h, cs.Host), cs)
			return
		}
		if p != wantPort {
			run.Violation("C20/port-wrong:"+shape, fmt.Sprintf("%s(%q) -> %q: port %q, want %q", what, addr, got, p, wantPort), cs)
			return
		}
	}
	verify("ensurePort", ensurePort(addr, 5222))
	ct := NewClientTransport(TransportConfiguration{Address: addr})
	if xt, ok := ct.(*XMPPTransport); !ok {
		run.Violation("C20/plain-address-not-tcp", fmt.Sprintf("NewClientTransport(%q) = %T", addr, ct), cs)
	} else {
		verify("NewClientTransport", xt.Config.Address)
	}
	tr, err := NewComponentTransport(TransportConfiguration{Address: addr})
	if err != nil {
		run.Violation("C20/component-refuses-tcp", fmt.Sprintf("NewComponentTransport(%q): %v", addr, err), cs)
	} else if xt, ok := tr.(*XMPPTransport); !ok {
		run.Violation("C20/component-not-tcp", fmt.Sprintf("NewComponentTransport(%q) = %T", addr, tr), cs)
	} else {
		verify("NewComponentTransport", xt.Config.Address)
	}
	// through the public constructor
	cl, err := NewClient(&Config{TransportConfiguration: TransportConfiguration{Address: addr}, Jid: "u@example.org", Credential: Password("p")}, NewRouter(), func(error) {})
	if err != nil {
		run.Violation("C20/newclient-error", fmt.Sprintf("NewClient with address %q: %v", addr, err), cs)
	} else if xt, ok := cl.transport.(*XMPPTransport); !ok {
		run.Violation("C20/plain-address-not-tcp", fmt.Sprintf("NewClient(%q) transport %T", addr, cl.transport), cs)
	} else {
		verify("NewClient", xt.Config.Address)
	}
	run.Count("shape_"+shape, 1)
	run.Nontrivial(addr)
}

func TestVf_C20(t *testing.T) {
	run := vfkit.Open("C20", "hosts {DNS names incl. digit/hyphen/punycode labels and trailing dot, IPv4, IPv6 full/compressed/::/v4-mapped/zoned, upper case} "+
		"x bracketed or bare x port absent or 1..65535 (bare IPv6 with :port excluded), plus ws:/wss: URLs; oracle = net.SplitHostPort of the address the transport holds; "+
		"non-trivial = distinct address string")
	defer run.Close()
	var rc vfAddrCase
	if run.ReplayCase(&rc) {
		run.Case(rc)
		vfAddrCheck(run, rc)
		return
	}
	r := vfkit.Rand(20)
	n := vfkit.Pick(20000, 1000000)
	ports := []int{1, 2, 22, 80, 443, 5222, 5223, 5269, 5275, 8888, 65534, 65535}
	for c := 0; c < n; c++ {
		h, kind := vfGenHost(r)
		if h == "ws" || h == "wss" {
			h = "x" + h // "ws:5222" is, by the library's documented rule, an address with a ws: scheme - not a host name
		}
		cs := vfAddrCase{Host: h, Kind: kind}
		if kind == "ipv6" {
			cs.Bracketed = r.Intn(2) == 0
		}
		if r.Intn(2) == 0 {
			if r.Intn(3) == 0 {
				cs.Port = ports[r.Intn(len(ports))]
			} else {
				cs.Port = 1 + r.Intn(65535)
			}
		}
		if kind == "ipv6" && !cs.Bracketed && cs.Port != 0 {
			cs.Bracketed = true // bare IPv6 followed by :port is inherently ambiguous: excluded
		}
		if r.Intn(12) == 0 {
			cs.Scheme = []string{"ws", "wss"}[r.Intn(2)]
			if kind == "ipv6" {
				cs.Bracketed = true
			}
		}
		if c%2000 == 0 {
			run.Case(cs)
		} else {
			run.CaseQuiet()
		}
		if c < 5 {
			run.Sample(map[string]interface{}{"case": cs, "address": cs.addr()})
		}
		vfAddrCheck(run, cs)
		if c%4 == 0 {
			// the same host in a sibling form right afterwards, then the first form again: nothing may be remembered
			// from one call to the next
			sib := cs
			if sib.Port == 0 {
				sib.Port = 1 + r.Intn(65535)
				if sib.Kind == "ipv6" {
					sib.Bracketed = true
				}
			} else if sib.Scheme == "" {
				sib.Port = 0
			}
			run.CaseQuiet()
			vfAddrCheck(run, sib)
			run.CaseQuiet()
			vfAddrCheck(run, cs)
			run.Count("sibling_addresses_in_sequence", 1)
		}
	}
	// exhaustive port sweep on three host shapes
	for _, hc := range []vfAddrCase{{Host: "example.org", Kind: "dns"}, {Host: "192.0.2.7", Kind: "ipv4"}, {Host: "2001:db8::1", Kind: "ipv6", Bracketed: true}} {
		for p := 1; p <= 65535; p += vfkit.Pick(13, 1) {
			hc.Port = p
			run.CaseQuiet()
			vfAddrCheck(run, hc)
		}
	}
	vfC20Dial(run)
	if run.NViolations() > 0 {
		t.Fail()
	}
}

// vfC20Dial: what is really dialled. A listener on the IPv6 and on the IPv4 loopback; client and component transports
// built from several spellings of its address must arrive there when Connect is called (the listener just accepts and
// closes: Connect fails afterwards, which is beside the point).
func vfC20Dial(run *vfkit.Run) {
	for _, lo := range []struct{ network, bind, kind string }{{"tcp6", "[::1]:0", "ipv6"}, {"tcp4", "127.0.0.1:0", "ipv4"}} {
		ln, err := net.Listen(lo.network, lo.bind)
		if err != nil {
			run.Count("loopback_unavailable_"+lo.kind, 1)
			continue
		}
		var accepted int32
		go func() {
			for {
				c, err := ln.Accept()
				if err != nil {
					return
				}
				atomic.AddInt32(&accepted, 1)
				c.Close()
			}
		}()
		port := ln.Addr().(*net.TCPAddr).Port
		var spellings []string
		if lo.kind == "ipv6" {
			spellings = []string{fmt.Sprintf("[::1]:%d", port), fmt.Sprintf("[0:0:0:0:0:0:0:1]:%d", port), fmt.Sprintf("[::0001]:%d", port)}
		} else {
			spellings = []string{fmt.Sprintf("127.0.0.1:%d", port), fmt.Sprintf("localhost:%d", port)}
		}
		for _, addr := range spellings {
			for _, who := range []string{"client", "component"} {
				cs := map[string]interface{}{"mode": "dial", "address": addr, "transport": who}
				run.Case(cs)
				before := atomic.LoadInt32(&accepted)
				var tr Transport
				if who == "client" {
					tr = NewClientTransport(TransportConfiguration{Address: addr, ConnectTimeout: 1, Domain: "localhost"})
				} else {
					tr, err = NewComponentTransport(TransportConfiguration{Address: addr, ConnectTimeout: 1, Domain: "localhost"})
					if err != nil {
						run.Violation("C20/component-refuses-tcp", fmt.Sprintf("NewComponentTransport(%q): %v", addr, err), cs)
						continue
					}
				}
				_, cerr := tr.Connect()
				if !vfWaitUntil(5*time.Second, func() bool { return atomic.LoadInt32(&accepted) > before }) {
					if lo.kind == "ipv4" && strings.HasPrefix(addr, "localhost") {
						run.Inconclusive("localhost-does-not-resolve-to-127.0.0.1")
						continue
					}
					run.Violation("C20/not-dialled:"+lo.kind, fmt.Sprintf("%s transport for %q: Connect returned %v and the listener on that very address saw no connection", who, addr, cerr), cs)
					continue
				}
				run.Count("addresses_really_dialled", 1)
				run.Nontrivial("dial|" + who + "|" + addr)
			}
		}
		ln.Close()
	}
}

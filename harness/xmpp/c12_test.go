package xmpp

// C12 — a lost connection is reported exactly once at every cut point; nothing leaks.
// Exhaustive over the byte offsets of post-negotiation inbound streams.

import (
	"fmt"
	"gosrc.io/xmpp/stanza"
	"math/rand"
	"strings"
	"sync"
	"testing"
	"time"

	"vfkit"
)

type vfC12Stream struct {
	SM        bool     `json:"sm"`
	Keepalive int      `json:"keepalive_ms"` // 0 = one hour
	Bytes     string   `json:"bytes"`
	Ends      []int    `json:"ends"` // offset just after the end tag of each stanza
	Ids       []string `json:"ids"`
}

type vfC12Case struct {
	Stream int    `json:"stream"`
	K      int    `json:"k"`
	How    string `json:"how"` // fin | rst
	// ViaResume: the session that is cut is the second one, obtained by calling Client.Resume() synchronously
	// from inside the Disconnected handler of a first loss (what a StreamManager does)
	ViaResume bool `json:"via_resume,omitempty"`
	// FailedAttempt (with ViaResume): the first reconnection attempt fails in the negotiation (the server ends the
	// stream instead of answering <auth/>); the session that is cut is the one obtained by the second attempt
	FailedAttempt bool `json:"failed_attempt,omitempty"`
}

func vfC12GenStream(r *rand.Rand, n int, idx int) *vfC12Stream {
	st := &vfC12Stream{SM: idx%2 == 0}
	if idx%3 == 2 {
		st.Keepalive = 5
	}
	var sb strings.Builder
	for i := 0; sb.Len() < n; i++ {
		id := fmt.Sprintf("k%d-%d", idx, i)
		switch r.Intn(7) {
		case 0:
			sb.WriteString(fmt.Sprintf(`<message id="%s" from="a@b/c" type="chat"><body>%s &amp; &#x263A; é中</body></message>`, id, vfEsc(vfkit.Text(r, 12, true))))
		case 1:
			sb.WriteString(fmt.Sprintf(`<message id="%s"><body><![CDATA[ <not> a tag ]]></body><x xmlns="urn:vf:u"><message xmlns="jabber:client" id="inner"/></x></message>`, id))
		case 2:
			sb.WriteString(fmt.Sprintf(`<presence id="%s" from="r@m/n"><show>dnd</show><status>%s</status></presence>`, id, vfEsc(vfkit.Text(r, 8, true))))
		case 3:
			sb.WriteString(fmt.Sprintf(`<iq id="%s" type="result" from="srv"><query xmlns="jabber:iq:version"><name>é</name></query></iq>`, id))
		case 4:
			sb.WriteString(fmt.Sprintf(`<presence id='%s'/>`, id))
		case 5:
			sb.WriteString(`<r xmlns="urn:xmpp:sm:3"/>`)
			if r.Intn(2) == 0 {
				sb.WriteString("\n")
			}
			continue
		default:
			sb.WriteString(fmt.Sprintf(`<iq id="%s" type="error"><error type="cancel"><item-not-found xmlns="urn:ietf:params:xml:ns:xmpp-stanzas"/><text xmlns="urn:ietf:params:xml:ns:xmpp-stanzas">n&lt;o</text></error></iq>`, id))
		}
		st.Ends = append(st.Ends, sb.Len())
		st.Ids = append(st.Ids, id)
	}
	st.Bytes = sb.String()
	return st
}

func vfClientGoroutines(c *Client) []string {
	needles := []string{
		fmt.Sprintf("gosrc.io/xmpp.(*Client).recv(%p", c),
		fmt.Sprintf("gosrc.io/xmpp.(*Router).route(%p", c.router),
	}
	tp := fmt.Sprintf("%p", c.transport)
	var out []string
	for _, g := range vfGoroutines() {
		hit := false
		for _, n := range needles {
			if strings.Contains(g.Text, n) {
				hit = true
			}
		}
		// keepalive(transport interface{type,data}, interval, quit): the data word is the transport pointer
		if !hit && strings.Contains(g.Text, "gosrc.io/xmpp.keepalive(") {
			for _, l := range strings.Split(g.Text, "\n") {
				if strings.HasPrefix(l, "gosrc.io/xmpp.keepalive(") && strings.Contains(l, tp) {
					hit = true
				}
			}
		}
		if hit {
			out = append(out, vfClip2(g.Text, 700))
		}
	}
	return out
}

func vfC12Run(run *vfkit.Run, st *vfC12Stream, cs *vfC12Case) {
	tag := cs.How
	if st.SM {
		tag += ":sm"
	}
	if st.Keepalive > 0 {
		tag += ":keepalive"
	}
	if cs.ViaResume {
		tag += ":via-resume"
	}
	cutDone := make(chan struct{})
	var perr error
	target := 0
	if cs.ViaResume {
		target = 1
		if cs.FailedAttempt {
			target = 2
			tag += ":after-failed-attempt"
		}
	}
	resumedUp := make(chan struct{})
	peer := vfNewPeer(func(pc *vfPeerConn) {
		if pc.N > target {
			return
		}
		o := &vfNeg{SM: st.SM, ExpectEnable: st.SM && pc.N == 0, SMResume: "true", SMID: "sm-c12", ExpectPresence: pc.N == 0, Bind: true, Resume: "resumed"}
		if cs.FailedAttempt && pc.N == 1 {
			// the reconnection attempt that fails: the server goes down politely right after the client's <auth/>
			if _, err := pc.Expect("stream"); err != nil {
				return
			}
			pc.Send(vfStreamHeader("jabber:client", "c12f", "localhost") + o.features("pre-auth"))
			pc.Expect("auth")
			pc.Send("</stream:stream>")
			pc.idle = 300 * time.Millisecond
			for {
				if _, err := pc.Next(); err != nil {
					return
				}
			}
		}
		if pc.N < target {
			// first session of a via-resume case: established, then lost at a stanza boundary
			if _, err := pc.Negotiate(o); err != nil {
				perr = err
			}
			pc.Close()
			return
		}
		defer close(cutDone)
		if _, err := pc.Negotiate(o); err != nil { // returns after the initial presence / the resumption: the client's own writes are done
			perr = err
			return
		}
		if cs.ViaResume {
			<-resumedUp // Resume() has returned in the handler: the new receive loop and keepalive are started
		}
		pc.Send(st.Bytes[:cs.K])
		if cs.How == "rst" {
			pc.RST()
		} else {
			pc.Close()
		}
	})
	defer peer.Stop()
	ka := time.Hour
	if st.Keepalive > 0 {
		ka = time.Duration(st.Keepalive) * time.Millisecond
	}
	c, obs, err := vfNewClient(vfClientOpt{Addr: peer.Addr(), Insecure: true, SM: st.SM, SMResume: true, Keepalive: ka}, nil)
	if err != nil {
		run.Inconclusive("newclient")
		return
	}
	obs.catchAll(c.router)
	if st.SM && cs.K%3 == 0 {
		obs.handlerDelay = func(id string) { time.Sleep(2 * time.Millisecond) } // handlers still at work when the cut comes
	}
	wantReports := 1
	errorsBeforeCut := 0 // error callbacks seen when the session under test came up (a failed attempt may add one of its own)
	if cs.ViaResume {
		wantReports = 2
		var once sync.Once
		var resumeErr error
		c.SetHandler(func(e Event) error {
			obs.onEvent(e)
			if e.State.state == StateDisconnected {
				once.Do(func() {
					resumeErr = c.Resume() // synchronously, inside the goroutine that detected the loss
					if cs.FailedAttempt && resumeErr != nil {
						resumeErr = c.Resume() // the retry a StreamManager would make
					}
					errorsBeforeCut = len(obs.Errors())
					close(resumedUp)
				})
			}
			return nil
		})
		defer func() { _ = resumeErr }()
	}
	if err := c.Connect(); err != nil {
		run.Inconclusive("connect-failed")
		return
	}
	defer func() { go c.Disconnect() }()
	select {
	case <-cutDone:
	case <-time.After(30 * time.Second):
		run.Inconclusive("peer-watchdog")
		return
	}
	if perr != nil {
		run.Inconclusive("peer-script")
		return
	}
	reported := vfWaitUntil(15*time.Second, func() bool {
		if cs.ViaResume {
			return len(obs.Errors()) >= errorsBeforeCut+1 && obs.CountState(StateDisconnected) >= wantReports
		}
		return len(obs.Errors()) >= wantReports && obs.CountState(StateDisconnected) >= wantReports
	})
	if !reported {
		alive := vfClientHasRecv(c)
		nerr, ndis := len(obs.Errors()), obs.CountState(StateDisconnected)
		if alive {
			run.Inconclusive("recv-still-running") // watchdog: cannot be decided
			return
		}
		k := "C12/loss-not-reported:"
		if nerr >= wantReports && ndis < wantReports {
			k = "C12/no-disconnected-event:"
		} else if nerr < wantReports && ndis >= wantReports {
			k = "C12/no-error-callback:"
		}
		run.Violation(k+tag, fmt.Sprintf("cut at byte %d (%s): the receive loop has ended with %d error callbacks and %d Disconnected events", cs.K, cs.How, nerr, ndis), map[string]interface{}{"case": cs, "prefix": st.Bytes[:cs.K]})
		return
	}
	// the application, not knowing yet, goes on sending: each of these writes fails, and none of them is another loss
	if cs.K%4 == 1 {
		for i := 0; i < 3; i++ {
			c.Send(stanza.Message{Attrs: stanza.Attrs{Id: fmt.Sprintf("after-the-cut-%d", i), To: "x@y"}, Body: "anyone?"})
			c.SendRaw("<presence/>")
		}
		run.Count("sends_attempted_after_the_cut", 6)
	}
	// quiescence: every goroutine of this client is gone
	var left []string
	gone := vfWaitUntil(10*time.Second, func() bool {
		left = vfClientGoroutines(c)
		return len(left) == 0
	})
	if !gone {
		what := "goroutine"
		switch {
		case strings.Contains(left[0], "keepalive("):
			what = "keepalive"
		case strings.Contains(left[0], ").recv("):
			what = "recv"
		case strings.Contains(left[0], ").route("):
			what = "route"
		}
		run.Violation("C12/goroutine-left-behind:"+what+":"+tag, fmt.Sprintf("cut at byte %d (%s): %d goroutines of this client still exist after the loss was reported", cs.K, cs.How, len(left)), map[string]interface{}{"case": cs, "goroutines": left})
		return
	}
	nerr, ndis := len(obs.Errors()), obs.CountState(StateDisconnected)
	if cs.ViaResume && cs.FailedAttempt {
		nerr = nerr - errorsBeforeCut + 1 // judged: the callbacks since the session under test came up, plus the first loss
	}
	if nerr != wantReports {
		run.Violation("C12/error-callback-count:"+tag, fmt.Sprintf("cut at byte %d (%s): %d error callbacks %v", cs.K, cs.How, nerr, obs.Errors()), map[string]interface{}{"case": cs, "prefix": st.Bytes[:cs.K]})
		return
	}
	if ndis != wantReports {
		run.Violation("C12/disconnected-event-count:"+tag, fmt.Sprintf("cut at byte %d (%s): %d Disconnected events", cs.K, cs.How, ndis), map[string]interface{}{"case": cs, "prefix": st.Bytes[:cs.K]})
		return
	}
	wantId := ""
	if st.SM {
		wantId = "sm-c12"
	}
	for _, e := range obs.Events() {
		if e.State == StateDisconnected && e.SMId != wantId {
			run.Violation("C12/disconnected-event-without-sm-state:"+tag, fmt.Sprintf("Disconnected event carries SM id %q, session id is %q", e.SMId, wantId), cs)
			return
		}
	}
	// stanzas completely received before the cut
	var want []string
	for i, end := range st.Ends {
		if end <= cs.K {
			want = append(want, st.Ids[i])
		}
	}
	// "... one Disconnected event carrying the stream-management state": on a stream-managed session that state says
	// how many stanzas were received - the server will be told exactly this number when the session is resumed
	if st.SM && cs.How == "fin" && !cs.ViaResume {
		evs := obs.Events()
		for i := len(evs) - 1; i >= 0; i-- {
			if evs[i].State == StateDisconnected {
				if int(evs[i].Inbound) != len(want) {
					run.Violation("C12/disconnected-event-with-wrong-inbound-count:"+tag, fmt.Sprintf("cut at byte %d (FIN): %d stanzas were completely received before the cut, the Disconnected event's stream-management state says %d", cs.K, len(want), evs[i].Inbound), map[string]interface{}{"case": cs, "prefix": st.Bytes[:cs.K]})
					return
				}
				run.Count("disconnected_events_with_exact_inbound_count", 1)
				break
			}
		}
	}
	routedNow := func() map[string]int {
		g := map[string]int{}
		obs.mu.Lock()
		for i, id := range obs.handled {
			if obs.kinds[i] == "message" || obs.kinds[i] == "presence" || obs.kinds[i] == "iq" {
				g[id]++
			}
		}
		obs.mu.Unlock()
		return g
	}
	// A routing goroutine that was created but has not run yet shows no frame with this client's pointers in the
	// dump, so "no goroutine left" can be declared a moment too early on a loaded machine: give every stanza that
	// must be routed a bounded time to arrive at its handler before judging (a dropped one never arrives).
	if cs.How == "fin" {
		vfWaitUntil(10*time.Second, func() bool {
			g := routedNow()
			for _, id := range want {
				if g[id] == 0 {
					return false
				}
			}
			return true
		})
	}
	got := routedNow()
	wantSet := map[string]bool{}
	for _, id := range want {
		wantSet[id] = true
	}
	for id, n := range got {
		if n > 1 || !wantSet[id] {
			run.Violation("C12/routed-what-was-not-received:"+tag, fmt.Sprintf("cut at byte %d: stanza %q routed %d times, completely received: %v", cs.K, id, n, want), cs)
			return
		}
	}
	if cs.How == "fin" {
		for _, id := range want {
			if got[id] != 1 {
				run.Violation("C12/complete-stanza-dropped:"+tag, fmt.Sprintf("cut at byte %d (FIN): stanza %q was completely received (ends at or before the cut) but never routed; routed %d of %d", cs.K, id, len(got), len(want)), map[string]interface{}{"case": cs, "prefix": st.Bytes[:cs.K]})
				return
			}
		}
	}
	if cs.ViaResume {
		run.Count("cuts_on_resumed_session", 1)
	}
	if cs.FailedAttempt {
		run.Count("cuts_on_session_after_failed_attempt", 1)
	}
	run.Count("cuts_"+cs.How, 1)
	run.Count("stanzas_routed_before_cut", int64(len(got)))
	run.Nontrivial(fmt.Sprintf("%d|%d|%s|%v|%v", cs.Stream, cs.K, cs.How, cs.ViaResume, cs.FailedAttempt))
}

func TestVf_C12(t *testing.T) {
	run := vfkit.Open("C12", "post-negotiation inbound streams (stanzas with text, entities, CDATA, multi-byte characters, nested same-named elements, <r/>; with and without stream management; keepalive 1 h or 5 ms) "+
		"cut at EVERY byte offset with FIN (thorough: also RST), the peer writing only after it has read the initial presence; oracle: exactly one error callback, exactly one Disconnected event carrying the SM id, "+
		"routed == stanzas whose end tag lies before the cut (FIN) / subset (RST), no goroutine of that client left (recv, keepalive, route); non-trivial = distinct (stream, offset, kind)")
	defer run.Close()
	nstreams := vfkit.Pick(6, 40)
	size := vfkit.Pick(380, 700)
	var streams []*vfC12Stream
	for i := 0; i < nstreams; i++ {
		streams = append(streams, vfC12GenStream(rand.New(rand.NewSource(vfkit.Seed()*31337+int64(i))), size, i))
	}
	var rc vfC12Case
	if run.ReplayCase(&rc) && rc.How != "" {
		for i := 0; i < 5; i++ {
			run.Case(rc)
			vfC12Run(run, streams[rc.Stream%len(streams)], &rc)
		}
		return
	}
	var cases []*vfC12Case
	for si, st := range streams {
		for k := 0; k <= len(st.Bytes); k++ {
			cases = append(cases, &vfC12Case{Stream: si, K: k, How: "fin"})
			if vfkit.Thorough() || k%7 == si%7 {
				cases = append(cases, &vfC12Case{Stream: si, K: k, How: "rst"})
			}
			if st.SM && (vfkit.Thorough() || k%5 == si%5) {
				cases = append(cases, &vfC12Case{Stream: si, K: k, How: "fin", ViaResume: true})
				if k%3 == 0 {
					cases = append(cases, &vfC12Case{Stream: si, K: k, How: "fin", ViaResume: true, FailedAttempt: true})
				}
			}
		}
		run.Count("stream_bytes", int64(len(st.Bytes)))
	}
	run.Sample(map[string]interface{}{"stream0": streams[0].Bytes, "ends": streams[0].Ends, "sm": streams[0].SM})
	run.Extra("cut_points", len(cases))
	run.Exhaustive(true)
	var wg sync.WaitGroup
	workers := 16
	for wk := 0; wk < workers; wk++ {
		wg.Add(1)
		go func(wk int) {
			defer wg.Done()
			for i := wk; i < len(cases) && !run.Enough(); i += workers {
				run.Case(cases[i])
				vfC12Run(run, streams[cases[i].Stream], cases[i])
				if run.NViolations() > 40 {
					return
				}
			}
		}(wk)
	}
	wg.Wait()
	if run.NViolations() > 0 {
		t.Fail()
	}
}

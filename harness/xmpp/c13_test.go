package xmpp

// C13 — a StreamManager re-establishes exactly one working session after each loss; permanent errors end the
// retry loop; Stop makes Run return.

import (
	"fmt"
	"math/rand"
	"os"
	"strings"
	"sync"
	"sync/atomic"
	"testing"
	"time"

	"gosrc.io/xmpp/stanza"
	"vfkit"
)

type vfC13Case struct {
	SM     bool     `json:"sm"`
	Faults []string `json:"faults"` // rst | fin | graceful | refuse-m | down-m | garbage | abort-{auth,success,bind} | loss-in-postconnect | stop-during-outage | permanent-sasl
	Seed   int64    `json:"seed"`
}

type vfC13Sess struct {
	n     int
	pc    *vfPeerConn
	kind  string // bound | resumed
	cmds  chan string
	ended chan struct{}
}

type vfC13Peer struct {
	mu          sync.Mutex
	plan        []string // behaviour of the next connections: ok (default) | refuse | garbage | sasl-failure
	sessions    []*vfC13Sess
	attempts    int32
	established chan *vfC13Sess
	sm          bool
	firstDone   bool
	conns       []*vfPeerConn
	abandoned   int32 // attempts the healthy peer would have accepted, which the client gave up before a session existed
	stopping    int32 // the harness has called Stop: attempts cut short from now on are not the client's doing
	disturbed   int32 // application stanzas that arrived in the middle of a negotiation (skipped by the peer)
}

// expect is Expect, except that stanzas the application sent while the reconnection was in progress (the library writes
// them to the new socket in the middle of the negotiation) are skipped, as a lenient server would: the planned
// behaviour of an attempt must not be consumed by an attempt that the harness's own traffic derailed.
func (p *vfC13Peer) expect(pc *vfPeerConn, local string) (vfElem, error) {
	for {
		e, err := pc.Next()
		if err != nil {
			return e, err
		}
		if e.Local == "message" && local != "message" {
			atomic.AddInt32(&p.disturbed, 1)
			continue
		}
		if e.Local != local {
			return e, fmt.Errorf("peer expected <%s>, client sent %s <%s>", local, e.Kind, e.Local)
		}
		return e, nil
	}
}

func (p *vfC13Peer) nconns() int {
	p.mu.Lock()
	defer p.mu.Unlock()
	return len(p.conns)
}

func (p *vfC13Peer) next() string {
	p.mu.Lock()
	defer p.mu.Unlock()
	if len(p.plan) == 0 {
		return "ok"
	}
	b := p.plan[0]
	p.plan = p.plan[1:]
	return b
}

func (p *vfC13Peer) handle(pc *vfPeerConn) {
	neg := &vfNeg{Bind: true, SM: p.sm, Mechs: []string{"PLAIN"}}
	p.mu.Lock()
	p.conns = append(p.conns, pc)
	p.mu.Unlock()
	if e, err := pc.Expect("stream"); err != nil {
		if e.Local == "message" {
			atomic.AddInt32(&p.disturbed, 1) // an application stanza overtook the stream header: not an attempt the plan speaks about
		}
		return
	}
	// an attempt counts, and consumes its planned behaviour, once the client has opened the stream
	atomic.AddInt32(&p.attempts, 1)
	b := p.next()
	sessionUp, derailed := false, false
	defer func() {
		// "as soon as the server accepts connections again": an attempt this peer was ready to accept must end in a
		// session. One that the client walks away from (and that the application's own traffic did not derail) is
		// a wasted opportunity - a client that retries for ever without ever using one never reconnects.
		if b == "ok" && !sessionUp && !derailed && atomic.LoadInt32(&p.stopping) == 0 {
			atomic.AddInt32(&p.abandoned, 1)
		}
	}()
	switch b {
	case "refuse":
		pc.Close()
		return
	case "abort-header":
		// the server dies while writing its stream header: the client reads a strict prefix of it, then the end
		pc.Send("<?xml version='1.0'?><stream:stream id='h1' from='localhost' xmlns='jabber:cli")
		pc.Close()
		return
	case "garbage":
		pc.Send(vfStreamHeader("jabber:client", "g", "localhost") + "<stream:features><<<garbage")
		pc.idle = 300 * time.Millisecond
		for {
			if _, err := pc.Next(); err != nil {
				return
			}
		}
	}
	pc.Send(vfStreamHeader("jabber:client", fmt.Sprintf("s%d", pc.N), "localhost") + neg.features("pre-auth"))
	if _, err := p.expect(pc, "auth"); err != nil {
		return
	}
	if b == "abort-auth" { // the server dies while the client waits for the SASL result
		pc.RST()
		return
	}
	if b == "sasl-failure" {
		pc.Send("<failure xmlns='" + vfNSSASL + "'><not-authorized/></failure>")
		pc.idle = 300 * time.Millisecond
		for {
			e, err := pc.Next()
			if err != nil {
				return
			}
			if e.Kind == "close" {
				pc.Send("</stream:stream>")
				return
			}
		}
	}
	pc.Send("<success xmlns='" + vfNSSASL + "'/>")
	if b == "abort-success" { // the server dies right after confirming the authentication: the client's restart header has nowhere to go
		pc.RST()
		return
	}
	pc.Restart()
	if e, err := pc.Expect("stream"); err != nil {
		if e.Local == "message" {
			// an application stanza where the restarted stream's header belongs: the server aborts, as a real one
			// would. The attempt was derailed by the application's traffic, not by the plan: it neither counts nor
			// consumes the planned behaviour.
			atomic.AddInt32(&p.disturbed, 1)
			atomic.AddInt32(&p.attempts, -1)
			derailed = true
			if b != "ok" {
				p.mu.Lock()
				p.plan = append([]string{b}, p.plan...)
				p.mu.Unlock()
			}
		}
		return
	}
	if b == "abort-restart-header" { // ... or while writing the header of the restarted stream
		pc.Send("<?xml version='1.0'?><stream:stream id='h2' from='localhost' xmlns='jabber:cli")
		pc.Close()
		return
	}
	pc.Send(vfStreamHeader("jabber:client", fmt.Sprintf("s%da", pc.N), "localhost") + neg.features("post-auth"))
	kind := ""
	p.mu.Lock()
	first := !p.firstDone
	p.mu.Unlock()
	for kind == "" {
		e, err := pc.Next()
		if err != nil {
			return
		}
		if b == "abort-bind" && (e.Is(vfNSSM, "resume") || e.Is("", "iq")) { // ... or while the client waits for the bind / resume result
			pc.RST()
			return
		}
		switch {
		case e.Is(vfNSSM, "resume"):
			pc.Send(fmt.Sprintf("<resumed xmlns='%s' previd='%s' h='0'/>", vfNSSM, e.Attrs["previd"]))
			kind = "resumed"
		case e.Is("", "iq") && e.Child("bind") != nil:
			pc.Send(fmt.Sprintf("<iq type='result' id='%s'><bind xmlns='%s'><jid>test@localhost/s%d</jid></bind></iq>", e.Attrs["id"], vfNSBind, pc.N))
			if p.sm {
				if e2, err := p.expect(pc, "enable"); err != nil || !e2.Is(vfNSSM, "enable") {
					return
				}
				// XEP-0198's location hint names a place that is not there (any more): a hint, not an order - the
				// configured address still works and must still be used
				pc.Send(fmt.Sprintf("<enabled xmlns='%s' id='sm%d' resume='true' location='127.0.0.1:1'/>", vfNSSM, pc.N))
			}
			if first {
				if e2, err := p.expect(pc, "presence"); err != nil || !e2.Is("", "presence") {
					return
				}
			}
			kind = "bound"
		case e.Kind == "close":
			pc.Send("</stream:stream>")
			return
		}
	}
	s := &vfC13Sess{n: pc.N, pc: pc, kind: kind, cmds: make(chan string, 4), ended: make(chan struct{})}
	p.mu.Lock()
	p.firstDone = true
	p.sessions = append(p.sessions, s)
	p.mu.Unlock()
	sessionUp = true
	p.established <- s
	// reader: log what the client sends; answer a stream close
	go func() {
		defer close(s.ended)
		for {
			e, err := pc.Next()
			if err != nil {
				return
			}
			if e.Kind == "close" {
				pc.Send("</stream:stream>")
			}
		}
	}()
	for {
		select {
		case cmd := <-s.cmds:
			switch {
			case strings.HasPrefix(cmd, "send:"):
				pc.Send(strings.TrimPrefix(cmd, "send:"))
			case cmd == "rst":
				pc.RST()
				<-s.ended
				return
			case cmd == "fin":
				pc.Close()
				<-s.ended
				return
			case cmd == "graceful":
				pc.Send("</stream:stream>")
				// a polite server waits for the client's closing tag, then closes
				select {
				case <-s.ended:
				case <-time.After(1 * time.Second):
					pc.Close()
					<-s.ended
				}
				return
			}
		case <-s.ended:
			return
		}
	}
}

// diag: what the peer saw on every connection so far, and this client's goroutines (for a violation's witness text)
func (p *vfC13Peer) diag(c *Client, sm *StreamManager) string {
	var sb strings.Builder
	p.mu.Lock()
	for i, pc := range p.conns {
		fmt.Fprintf(&sb, " | conn %d: client sent %q", i+1, vfClip2(pc.ClearBytes(), 700))
	}
	p.mu.Unlock()
	cp, sp := fmt.Sprintf("%p", c), fmt.Sprintf("%p", sm)
	for _, g := range vfGoroutines() {
		if strings.Contains(g.Text, cp) || strings.Contains(g.Text, sp) {
			fmt.Fprintf(&sb, " | goroutine: %s", vfClip2(strings.ReplaceAll(g.Text, "\n", " ; "), 900))
		}
	}
	return sb.String()
}

// vfClientRecvIdle: the client has no receive loop that could still notice a loss - none at all, or one that is
// blocked forever in ReceivedStreamClose.
func vfClientRecvIdle(c *Client) bool {
	needle := fmt.Sprintf("gosrc.io/xmpp.(*Client).recv(%p", c)
	for _, g := range vfGoroutines() {
		if strings.Contains(g.Text, needle) {
			if strings.Contains(g.Text, "ReceivedStreamClose") {
				continue
			}
			return false
		}
	}
	return true
}

// vfRetryLoopAliveFor: a reconnection is in progress for exactly this StreamManager / Client (the receiver
// pointers are the first arguments printed in the frames). Loops left behind by earlier cases do not count.
func vfRetryLoopAliveFor(sm *StreamManager, c *Client) bool {
	needles := []string{
		fmt.Sprintf("gosrc.io/xmpp.(*StreamManager).resume(%p", sm),
		fmt.Sprintf("gosrc.io/xmpp.(*StreamManager).connect(%p", sm),
		fmt.Sprintf("gosrc.io/xmpp.(*Client).Resume(%p", c),
		fmt.Sprintf("gosrc.io/xmpp.(*Client).connect(%p", c),
		fmt.Sprintf("gosrc.io/xmpp.(*Client).Connect(%p", c),
	}
	for _, g := range vfGoroutines() {
		for _, n := range needles {
			if strings.Contains(g.Text, n) {
				return true
			}
		}
	}
	return false
}

func vfC13Run(run *vfkit.Run, cs *vfC13Case) {
	vp := &vfC13Peer{established: make(chan *vfC13Sess, 16), sm: cs.SM}
	peer := vfNewPeer(vp.handle)
	defer peer.Stop()
	router := NewRouter()
	c, obs, err := vfNewClient(vfClientOpt{Addr: peer.Addr(), Insecure: true, SM: cs.SM, SMResume: true}, router)
	if err != nil {
		run.Inconclusive("newclient")
		return
	}
	obs.catchAll(router)
	var postConnect int32
	// blockNext: the next PostConnect invocation waits on the returned channel (a slow application callback)
	var pcMu sync.Mutex
	var pcBlock chan struct{}
	var pcEntered chan struct{}
	sm := NewStreamManager(c, func(s Sender) {
		atomic.AddInt32(&postConnect, 1)
		pcMu.Lock()
		b, ent := pcBlock, pcEntered
		pcBlock, pcEntered = nil, nil
		pcMu.Unlock()
		if b != nil {
			close(ent)
			<-b
		}
	})
	runDone := make(chan error, 1)
	go func() { runDone <- sm.Run() }()
	vfRetryLoopAlive := func() bool { return vfRetryLoopAliveFor(sm, c) }
	stopped := false
	stop := func() bool {
		if stopped {
			return true
		}
		stopped = true
		atomic.StoreInt32(&vp.stopping, 1)
		go sm.Stop()
		select {
		case <-runDone:
			return true
		case <-time.After(15 * time.Second):
			return false
		}
	}
	// waitSession returns the next session established at the peer, or nil as soon as it is logically impossible
	// that one will come: no retry loop exists and this client's receive loop is gone or stuck (two observations).
	// the retry loop's sleeps, read off the goroutine dump: distinct arguments of time.Sleep = distinct back-off pauses =
	// that many failed attempts. If the loop has failed six times while this peer - which is listening - has not seen a
	// single attempt, the client is trying somewhere else.
	sleepNeedle := fmt.Sprintf("gosrc.io/xmpp.(*StreamManager).resume(%p", sm)
	sleepsSeen := map[string]bool{}
	var attemptsAtLoss int32
	listenerDown, unreached := false, false
	waitSession := func(max time.Duration) *vfC13Sess {
		deadline := time.After(max)
		dead, polls := 0, 0
		for {
			select {
			case s := <-vp.established:
				return s
			case <-deadline:
				return nil
			case <-time.After(25 * time.Millisecond):
				for _, g := range vfGoroutines() {
					if strings.Contains(g.Text, sleepNeedle) {
						if m := vfSleepArg.FindStringSubmatch(g.Text); m != nil {
							sleepsSeen[m[1]] = true
						}
					}
				}
				if len(sleepsSeen) >= 6 && !listenerDown && atomic.LoadInt32(&vp.attempts) == attemptsAtLoss && atomic.LoadInt32(&vp.disturbed) == 0 {
					unreached = true
					return nil
				}
				if atomic.LoadInt32(&vp.abandoned) >= 3 {
					return nil // three opportunities wasted: decided by count, not by the clock
				}
				polls++
				if polls%4 != 0 {
					continue
				}
				if !vfRetryLoopAlive() && vfClientRecvIdle(c) {
					dead++
					if dead >= 3 {
						select {
						case s := <-vp.established:
							return s
						default:
						}
						return nil
					}
				} else {
					dead = 0
				}
			}
		}
	}
	cur := waitSession(20 * time.Second)
	if cur == nil {
		run.Inconclusive("first-session")
		stop()
		return
	}
	shape := strings.Join(cs.Faults, ",")
	nEst := 1
	// working: a stanza from the peer is handled, a Send from the client arrives
	working := func(s *vfC13Sess, tag string) bool {
		id := fmt.Sprintf("ping-%d-%d", cs.Seed, s.n)
		s.cmds <- fmt.Sprintf("send:<message id='%s' from='peer@localhost'><body>are you there</body></message>", id)
		if !vfWaitUntil(15*time.Second, func() bool {
			for _, h := range obs.Handled() {
				if h == id {
					return true
				}
			}
			return false
		}) {
			k := "C13/not-receiving-on-new-session:" + tag
			run.Violation(k, fmt.Sprintf("session %d (%s) was established at the peer but a stanza sent on it was never routed (receive loop alive for this client: %v; connections seen by the peer: %d; Disconnected events so far: %d; error callbacks: %v)", s.n, s.kind, vfClientHasRecv(c), vp.nconns(), obs.CountState(StateDisconnected), obs.Errors())+vp.diag(c, sm), cs)
			return false
		}
		out := fmt.Sprintf("pong-%d-%d", cs.Seed, s.n)
		sent := make(chan error, 1)
		go func() {
			sent <- c.Send(stanza.Message{Attrs: stanza.Attrs{Id: out, To: "peer@localhost"}, Body: "yes"})
		}()
		select {
		case err := <-sent:
			if err != nil {
				run.Violation("C13/cannot-send-on-new-session:"+tag, fmt.Sprintf("session %d: Send returned %v", s.n, err), cs)
				return false
			}
		case <-time.After(15 * time.Second):
			run.Violation("C13/send-blocks-on-new-session:"+tag, fmt.Sprintf("session %d is established and receiving, but Send has not returned after 15s", s.n), cs)
			return false
		}
		if !vfWaitUntil(15*time.Second, func() bool { return strings.Contains(s.pc.ClearBytes(), out) }) {
			run.Violation("C13/send-not-arriving-on-new-session:"+tag, fmt.Sprintf("session %d: the stanza sent by the client did not arrive on the new connection", s.n), cs)
			return false
		}
		run.Count("sessions_proven_working", 1)
		return true
	}
	if !working(cur, "initial") {
		stop()
		return
	}
	permanent := false
	for fi, f := range cs.Faults {
		tag := f
		attemptsBefore := atomic.LoadInt32(&vp.attempts)
		attemptsAtLoss = attemptsBefore
		for k := range sleepsSeen {
			delete(sleepsSeen, k)
		}
		switch {
		case f == "rst" || f == "fin" || f == "graceful":
			cur.cmds <- f
		case f == "loss-in-postconnect":
			// the session that follows this loss is itself lost while the application's post-connect callback is
			// still running: one more session must come up (three in all for this fault)
			block, entered := make(chan struct{}), make(chan struct{})
			pcMu.Lock()
			pcBlock, pcEntered = block, entered
			pcMu.Unlock()
			cur.cmds <- "rst"
			mid := waitSession(30 * time.Second)
			if mid == nil {
				close(block)
				run.Inconclusive("loss-in-postconnect:no-intermediate-session")
				stop()
				return
			}
			nEst++
			select {
			case <-entered:
			case <-time.After(15 * time.Second):
				close(block)
				run.Inconclusive("loss-in-postconnect:callback-not-entered")
				stop()
				return
			}
			mid.cmds <- "rst" // lost while PostConnect is running
			defer func(b chan struct{}) {
				select {
				case <-b:
				default:
					close(b)
				}
			}(block)
			// the callback returns only after the loss has been noticed by the client
			go func() {
				vfWaitUntil(10*time.Second, func() bool { return len(obs.Errors()) >= 2 })
				select {
				case <-block:
				default:
					close(block)
				}
			}()
		case strings.HasPrefix(f, "refuse-"):
			m := int(f[len(f)-1] - '0')
			vp.mu.Lock()
			for i := 0; i < m; i++ {
				vp.plan = append(vp.plan, "refuse")
			}
			vp.mu.Unlock()
			cur.cmds <- "fin"
		case strings.HasPrefix(f, "down-"):
			m := int(f[len(f)-1] - '0')
			peer.CloseListener()
			listenerDown = true
			cur.cmds <- "rst"
			// stay down for roughly m attempts of the back-off (20 ms * 2^n, jittered), then accept again
			time.Sleep(time.Duration(15*(1<<uint(m))) * time.Millisecond)
			if err := peer.Reopen(); err != nil {
				run.Inconclusive("reopen-failed")
				stop()
				return
			}
			listenerDown = false
			attemptsAtLoss = atomic.LoadInt32(&vp.attempts)
			for k := range sleepsSeen {
				delete(sleepsSeen, k)
			}
		case f == "garbage" || strings.HasPrefix(f, "abort-"):
			vp.mu.Lock()
			vp.plan = append(vp.plan, f)
			vp.mu.Unlock()
			cur.cmds <- "rst"
		case f == "permanent-sasl":
			vp.mu.Lock()
			vp.plan = append(vp.plan, "sasl-failure")
			vp.mu.Unlock()
			cur.cmds <- "fin"
			permanent = true
		}
		if f != "graceful" && f != "stop-during-outage" {
			// the application does not know yet: it tries to send while the connection is gone (the result does not
			// matter - an error is fine - but it must not poison the session that follows)
			go func(n int) {
				for i := 0; i < 3; i++ {
					c.Send(stanza.Message{Attrs: stanza.Attrs{Id: fmt.Sprintf("during-outage-%d-%d-%d", cs.Seed, n, i), To: "peer@localhost"}, Body: "anyone?"})
					time.Sleep(2 * time.Millisecond)
				}
			}(fi)
		}
		if f == "stop-during-outage" {
			// Stop while the retry loop is running and the server refuses connections: Run must return
			peer.CloseListener()
			cur.cmds <- "rst"
			vfWaitUntil(10*time.Second, func() bool { return vfRetryLoopAlive() })
			time.Sleep(60 * time.Millisecond) // a few back-off periods into the outage
			ok := stop()
			peer.Reopen()
			if !ok {
				run.Violation("C13/stop-does-not-end-run:during-outage", "Stop was called while the reconnection loop was running (server refusing connections); Run did not return within 15s", cs)
				return
			}
			run.Count("stops_during_outage", 1)
			run.Count("sequences_completed", 1)
			run.Nontrivial(fmt.Sprintf("%v|%s", cs.SM, shape))
			return
		}
		if permanent {
			// the retry loop must end, and no further attempt may follow
			if !vfWaitUntil(20*time.Second, func() bool { return atomic.LoadInt32(&vp.attempts) > attemptsBefore && !vfRetryLoopAlive() }) {
				run.Inconclusive("permanent-watchdog")
				stop()
				return
			}
			a1 := atomic.LoadInt32(&vp.attempts)
			time.Sleep(150 * time.Millisecond) // several back-off periods
			if a2 := atomic.LoadInt32(&vp.attempts); a2 != a1 || vfRetryLoopAlive() {
				run.Violation("C13/retry-after-permanent-error", fmt.Sprintf("credentials were rejected, yet %d further connection attempts followed", a2-a1), cs)
				stop()
				return
			}
			select {
			case s := <-vp.established:
				run.Violation("C13/session-after-permanent-error", fmt.Sprintf("a session (%s) was established after the permanent error", s.kind), cs)
				stop()
				return
			default:
			}
			run.Count("permanent_errors_ended_loop", 1)
			break
		}
		next := waitSession(30 * time.Second)
		if next == nil {
			// decided logically: is anything still trying?
			alive := vfRetryLoopAlive()
			if unreached {
				run.Violation("C13/retries-never-reach-the-configured-server:"+tag, fmt.Sprintf("fault #%d %q: the retry loop has paused %d times (so as many attempts have failed) while the configured server, which is listening, has not seen one connection attempt", fi, f, len(sleepsSeen))+vp.diag(c, sm), cs)
			} else if ab := atomic.LoadInt32(&vp.abandoned); ab > 0 {
				run.Violation("C13/accepting-server-not-used:"+tag, fmt.Sprintf("fault #%d %q: since the loss the peer was ready to accept %d connection attempts (stream opened, nothing planned against them, no application stanza in the way) and the client gave each of them up before a session existed (retry loop alive: %v; error callbacks: %v)",
					fi, f, ab, alive, obs.Errors())+vp.diag(c, sm), cs)
			} else if alive {
				run.Inconclusive("reconnect-watchdog:" + tag)
			} else {
				run.Violation("C13/no-session-after-loss:"+tag, fmt.Sprintf("fault #%d %q: no new session was established and no retry loop is running any more (attempts seen by the peer since the loss: %d; error callbacks: %v)",
					fi, f, atomic.LoadInt32(&vp.attempts)-attemptsBefore, obs.Errors())+vp.diag(c, sm), cs)
			}
			stop()
			return
		}
		nEst++
		// (a server that died while the client was waiting for <resumed/> leaves no resumable state behind: the
		// client must discard it - C11 - so a fresh bind is the expected outcome there)
		if cs.SM && next.kind != "resumed" && f != "abort-bind" {
			run.Violation("C13/not-resumed-although-possible:"+tag, fmt.Sprintf("the peer would have confirmed a resumption, the client bound a fresh session (%s)", next.kind), cs)
			stop()
			return
		}
		if strings.HasPrefix(f, "refuse-") {
			m := int32(f[len(f)-1] - '0')
			if got := atomic.LoadInt32(&vp.attempts) - attemptsBefore; got != m+1 {
				run.Violation("C13/not-reconnected-at-first-opportunity:"+tag, fmt.Sprintf("the peer refused %d attempts; the session should be up on attempt %d, but it took %d", m, m+1, got), cs)
				stop()
				return
			}
		}
		cur = next
		if !working(cur, tag) {
			stop()
			return
		}
		run.Count("losses_recovered_"+strings.TrimRight(f, "0123456789"), 1)
	}
	if d := atomic.LoadInt32(&vp.disturbed); d > 0 {
		run.Count("application_stanzas_skipped_inside_negotiations", int64(d))
	}
	if ab := atomic.LoadInt32(&vp.abandoned); ab > 0 {
		run.Violation("C13/accepting-server-not-used:"+shape, fmt.Sprintf("%d connection attempts that the peer was ready to accept were given up by the client before a session existed", ab)+vp.diag(c, sm), cs)
		stop()
		return
	}
	// exactly one session per loss: decided when no retry loop exists any more
	if !vfWaitUntil(20*time.Second, func() bool { return !vfRetryLoopAlive() }) {
		run.Inconclusive("settle-watchdog")
		stop()
		return
	}
	time.Sleep(120 * time.Millisecond)
	if cs.SM && len(cs.Faults) == 1 && !permanent {
		// anything armed during the negotiation with a ConnectTimeout fuse (1 s here) - a deadline left on the socket, a
		// delayed close - comes due now, on a session that nobody touches: it must survive (pacing, not a verdict)
		time.Sleep(1200 * time.Millisecond)
		run.Count("resumed_sessions_left_alone_for_a_connect_timeout", 1)
	}
	extra := 0
	for {
		select {
		case <-vp.established:
			extra++
			continue
		default:
		}
		break
	}
	if extra > 0 {
		run.Violation("C13/more-than-one-session-per-loss:"+shape, fmt.Sprintf("%d sessions beyond one per loss were established", extra), cs)
		stop()
		return
	}
	if pc := int(atomic.LoadInt32(&postConnect)); pc != nEst {
		run.Violation("C13/postconnect-count", fmt.Sprintf("%d sessions established, PostConnect ran %d times", nEst, pc), cs)
		stop()
		return
	}
	if !stop() {
		run.Violation("C13/stop-does-not-end-run", "Run did not return 15s after Stop", cs)
		return
	}
	run.Count("sequences_completed", 1)
	run.Nontrivial(fmt.Sprintf("%v|%s", cs.SM, shape))
}

func TestVf_C13(t *testing.T) {
	run := vfkit.Open("C13", "a StreamManager over a real Client against a scripted peer; fault sequences of length 1-4 over {RST, FIN, graceful </stream:stream>, next m in {1,2,4} connections accepted then closed, "+
		"listener down for about m attempts (ECONNREFUSED), garbage features on the reconnect (transient), the server dying in the middle of the reconnect's negotiation - on <auth>, right after <success/>, on the bind/resume request (transient), SASL failure on the reconnect (permanent)}, with and without resumable stream management; "+
		"oracle: per loss one new session (resumed when possible) proven working both ways, PostConnect once per session, none extra once no retry loop exists, permanent error ends the loop, Stop ends Run; "+
		"non-trivial = distinct completed sequence")
	defer run.Close()
	var rc vfC13Case
	if run.ReplayCase(&rc) {
		rep := 1
		fmt.Sscan(os.Getenv("VF_REPEAT"), &rep)
		for i := 0; i < rep && run.NViolations() == 0; i++ {
			run.Case(rc)
			vfC13Run(run, &rc)
		}
		return
	}
	alphabet := []string{"rst", "fin", "graceful", "refuse-1", "refuse-2", "refuse-4", "down-1", "down-2", "garbage", "abort-header", "abort-restart-header", "abort-auth", "abort-success", "abort-bind", "loss-in-postconnect", "stop-during-outage", "permanent-sasl"}
	var cases []*vfC13Case
	// every single fault, with and without SM
	for _, smOn := range []bool{false, true} {
		for _, f := range alphabet {
			cases = append(cases, &vfC13Case{SM: smOn, Faults: []string{f}})
		}
	}
	r := vfkit.Rand(13)
	n := vfkit.Pick(12, 580)
	for i := 0; i < n; i++ {
		cs := &vfC13Case{SM: r.Intn(2) == 0}
		l := 2 + r.Intn(3)
		for j := 0; j < l; j++ {
			f := alphabet[r.Intn(len(alphabet))]
			cs.Faults = append(cs.Faults, f)
			if f == "permanent-sasl" || f == "stop-during-outage" {
				break
			}
		}
		cases = append(cases, cs)
	}
	for i, cs := range cases {
		cs.Seed = vfkit.Seed()*1000 + int64(i)
	}
	// sequential: the retry-loop predicate is process-wide
	for i, cs := range cases {
		if run.Enough() {
			break
		}
		run.Case(cs)
		if i < 3 {
			run.Sample(cs)
		}
		vfC13Run(run, cs)
		_ = rand.Int
	}
	if run.NViolations() > 0 {
		t.Fail()
	}
}

package xmpp

// C05 — every inbound stanza reaches the router exactly once (client: concurrently; component: in order),
// every <r/> is answered, nothing completely received before a loss is dropped, no element crashes the client.

import (
	"fmt"
	"io"
	"math/rand"
	"net"
	"sort"
	"strings"
	"sync"
	"sync/atomic"
	"testing"
	"time"

	"vfkit"
)

type vfInElem struct {
	XML    string `json:"xml"`
	Id     string `json:"id,omitempty"` // stanza id; "" for non-stanza elements
	Kind   string `json:"kind"`         // message presence iq r a
	Stanza bool   `json:"stanza"`
}

type vfC05Case struct {
	Mode    string     `json:"mode"` // client-tcp | component-tcp | client-ws
	SM      bool       `json:"sm"`   // stream management negotiated
	End     string     `json:"end"`  // sentinel | fin | rst
	Gate    bool       `json:"gate"` // handler of the first stanza waits for the second one to start
	Seed    int64      `json:"seed"`
	WSStyle string     `json:"wsstyle,omitempty"` // one | several | fragmented
	Elems   []vfInElem `json:"elems"`
	GateK   int        `json:"gate_k,omitempty"` // handlers of the first GateK stanzas wait for the next one to start
	// Logged (client over TCP): "" | "logged" (traffic logger on) | "logged+data-with-eof" (traffic logger on, and the
	// socket hands the last bytes over together with the end-of-stream error, as io.Reader allows and TLS does)
	Logged string `json:"logged,omitempty"`
	// ViaResume (client over TCP, no stream management): the session that receives the elements is the client's second
	// one - the first is closed by the server right after it was established, and the application reconnects with
	// Resume() from inside the Disconnected handler, as a StreamManager does
	ViaResume bool `json:"via_resume,omitempty"`
}

// vfDataWithEOF makes the underlying connection report "n bytes and then the end" in one Read call whenever the end
// follows the data closely - which io.Reader explicitly permits and crypto/tls does when a close_notify alert
// arrives in the same segment as the last record.
type vfDataWithEOF struct {
	rw   io.ReadWriter
	conn net.Conn
	hits *int64
}

func (d *vfDataWithEOF) Write(p []byte) (int, error) { return d.rw.Write(p) }

func (d *vfDataWithEOF) Read(p []byte) (int, error) {
	n, err := d.rw.Read(p)
	if err != nil || n == 0 || n == len(p) {
		return n, err
	}
	d.conn.SetReadDeadline(time.Now().Add(3 * time.Millisecond))
	n2, err2 := d.rw.Read(p[n:])
	d.conn.SetReadDeadline(time.Time{})
	if ne, ok := err2.(net.Error); ok && ne.Timeout() {
		return n + n2, nil
	}
	if err2 != nil {
		atomic.AddInt64(d.hits, 1)
	}
	return n + n2, err2
}

var vfC05DataWithEOF, vfC05Oversize, vfC05ViaResume int64

func vfGenInbound(r *rand.Rand, n int, ns string, allowSMAnswer bool, tag string) []vfInElem {
	var out []vfInElem
	xmlns := ""
	if ns != "" {
		xmlns = ` xmlns="` + ns + `"`
	}
	for i := 0; i < n; i++ {
		id := fmt.Sprintf("%s-%d", tag, i)
		var e vfInElem
		switch k := r.Intn(20); {
		case k < 6:
			body := vfEsc(vfkit.Text(r, 30, true))
			if r.Intn(25) == 0 {
				body = strings.Repeat("0123456789abcdef", 1900) // ~30 KiB
			}
			ext := ""
			switch r.Intn(4) {
			case 0:
				ext = `<request xmlns="urn:xmpp:receipts"/>`
			case 1:
				ext = `<wrap xmlns="urn:vf:unknown"><message xmlns="jabber:client" id="nested"><body>in</body></message><d1><d2><d3><body>deep</body></d3></d2></d1></wrap>`
			case 2:
				// an unknown payload (an RSS/Atom item, say) whose element names happen to be those HTML treats as
				// void or self-closing - with content, as XML allows
				ext = `<item xmlns="urn:vf:feed"><link>http://example.org/a?b=1&amp;c=2</link><meta>m</meta><br>b</br><input>i</input><IMG>x</IMG><hr>h</hr><col>c</col><param>p</param><base>q</base><area>r</area><p>one<p>two</p></p></item>`
			}
			mk := func(body string) string {
				return fmt.Sprintf(`<message%s id="%s" from="peer@example.org/r" type="chat"><body>%s</body>%s</message>`, xmlns, id, body, ext)
			}
			if ns == "" && r.Intn(40) == 0 {
				// over TCP there is no per-stanza limit: a stanza exactly as long as the transport's read buffer
				// (32 KiB), one byte off, or several buffers long
				target := []int{32767, 32768, 32769, 65536, 65537, 140000}[r.Intn(6)]
				body = strings.Repeat("z", target-len(mk("")))
			}
			e = vfInElem{Kind: "message", Id: id, Stanza: true, XML: mk(body)}
		case k < 9:
			e = vfInElem{Kind: "presence", Id: id, Stanza: true, XML: fmt.Sprintf(`<presence%s id="%s" from="room@muc.example.org/n"><show>away</show><status>%s</status></presence>`, xmlns, id, vfEsc(vfkit.Text(r, 10, true)))}
		case k < 15:
			typ := []string{"get", "set", "result", "error"}[r.Intn(4)]
			pl := ""
			switch r.Intn(4) {
			case 0:
				pl = `<query xmlns="http://jabber.org/protocol/disco#info"/>`
			case 1:
				pl = `<query xmlns="urn:vf:unknown-iq"><iq xmlns="jabber:client" id="nested" type="get"/></query>`
			case 2:
				pl = `<query xmlns="jabber:iq:version"><name>n</name></query>`
			}
			if typ == "error" {
				pl += `<error type="cancel"><service-unavailable xmlns="urn:ietf:params:xml:ns:xmpp-stanzas"/></error>`
			}
			e = vfInElem{Kind: "iq", Id: id, Stanza: true, XML: fmt.Sprintf(`<iq%s id="%s" type="%s" from="example.org">%s</iq>`, xmlns, id, typ, pl)}
		case k < 18:
			e = vfInElem{Kind: "r", XML: `<r xmlns="urn:xmpp:sm:3"/>`}
		default:
			if allowSMAnswer {
				e = vfInElem{Kind: "a", XML: fmt.Sprintf(`<a xmlns="urn:xmpp:sm:3" h="%d"/>`, r.Intn(3))}
			} else {
				e = vfInElem{Kind: "r", XML: `<r xmlns="urn:xmpp:sm:3"/>`}
			}
		}
		out = append(out, e)
	}
	return out
}

func vfEsc(s string) string {
	r := strings.NewReplacer("&", "&amp;", "<", "&lt;", ">", "&gt;", "\r", "&#13;")
	return r.Replace(s)
}

type vfC05Result struct {
	handled      []string
	kinds        []string
	answers      int
	errs         []string
	connectErr   error
	peerErr      error
	inconclusive string
}

func vfC05RunClientTCP(cs *vfC05Case) vfC05Result {
	var res vfC05Result
	r := rand.New(rand.NewSource(cs.Seed))
	var answers []vfElem
	var amu sync.Mutex
	sentAll := make(chan struct{})
	peer := vfNewPeer(func(pc *vfPeerConn) {
		if cs.ViaResume && pc.N == 0 {
			pc.Negotiate(&vfNeg{Bind: true, ExpectPresence: true})
			pc.Close()
			return
		}
		o := &vfNeg{SM: cs.SM, ExpectEnable: cs.SM, SMResume: []string{"true", "true", "false", ""}[int(cs.Seed)%4], ExpectPresence: !cs.ViaResume, Bind: true}
		if _, err := pc.Negotiate(o); err != nil {
			res.peerErr = err
			close(sentAll)
			return
		}
		// reader: everything the client writes from now on
		rdone := make(chan struct{})
		go func() {
			defer close(rdone)
			for {
				e, err := pc.Next()
				if err != nil {
					return
				}
				if e.Is(vfNSSM, "a") {
					amu.Lock()
					answers = append(answers, e)
					amu.Unlock()
				}
				if e.Kind == "close" {
					pc.Send("</stream:stream>")
				}
			}
		}()
		var sb strings.Builder
		for _, e := range cs.Elems {
			sb.WriteString(e.XML)
			if r.Intn(4) == 0 {
				sb.WriteString("\n")
			}
		}
		if cs.End == "sentinel" {
			sb.WriteString(`<message id="SENTINEL" from="peer@example.org"><body>end</body></message>`)
		}
		pc.SendSeg(sb.String(), r)
		close(sentAll)
		switch cs.End {
		case "fin":
			if tc, ok := pc.raw.(interface{ CloseWrite() error }); ok {
				tc.CloseWrite()
			}
			<-rdone
		case "rst":
			pc.RST()
			<-rdone
		default:
			<-rdone
		}
	})
	defer peer.Stop()
	router := NewRouter()
	c, obs, err := vfNewClient(vfClientOpt{Addr: peer.Addr(), Insecure: true, SM: cs.SM, SMResume: true}, router)
	if err != nil {
		res.connectErr = err
		return res
	}
	if cs.Logged != "" {
		c.transport.LogTraffic(io.Discard) // what NewClient does with Config.StreamLogger
		if cs.Logged == "logged+data-with-eof" {
			c.PostConnectHook = func() error { // runs inside Connect, before the receive loop exists
				t := c.transport.(*XMPPTransport)
				if sl, ok := t.readWriter.(*streamLogger); ok {
					sl.socket = &vfDataWithEOF{rw: sl.socket, conn: t.conn, hits: &vfC05DataWithEOF}
				}
				return nil
			}
		}
	}
	gate2 := make(chan struct{})
	var gateOnce sync.Once
	hr := rand.New(rand.NewSource(cs.Seed + 1))
	var hmu sync.Mutex
	// gate: the handlers of the first K stanzas all wait until the handler of stanza K+1 has started. Routing is
	// "concurrently for a client": whatever K, the receive loop must go on reading and dispatching while they wait.
	waiters := map[string]bool{}
	secondId := ""
	if cs.Gate {
		var ids []string
		for _, e := range cs.Elems {
			if e.Stanza {
				ids = append(ids, e.Id)
			}
		}
		k := 1
		if cs.GateK > 0 {
			k = cs.GateK
		}
		if len(ids) > k {
			for _, id := range ids[:k] {
				waiters[id] = true
			}
			secondId = ids[k]
		}
	}
	var gateTimedOut int32
	gateAbort := make(chan struct{})
	var abortOnce sync.Once
	obs.handlerDelay = func(id string) {
		if cs.Gate && secondId != "" {
			if id == secondId {
				gateOnce.Do(func() { close(gate2) })
			}
			if waiters[id] && atomic.LoadInt32(&gateTimedOut) == 0 {
				select {
				case <-gate2:
				case <-gateAbort: // another waiter has given up: the verdict is in, no point in waiting one by one
				case <-time.After(15 * time.Second):
					atomic.StoreInt32(&gateTimedOut, 1)
					abortOnce.Do(func() { close(gateAbort) })
				}
			}
		}
		hmu.Lock()
		d := hr.Intn(6)
		hmu.Unlock()
		switch d {
		case 0:
			time.Sleep(time.Duration(1+d) * 100 * time.Microsecond)
		case 1:
			for i := 0; i < 3; i++ {
				time.Sleep(0)
			}
		}
	}
	obs.catchAll(router)
	resumed := make(chan error, 1)
	if cs.ViaResume {
		var once sync.Once
		c.SetHandler(func(e Event) error {
			obs.onEvent(e)
			if e.State.state == StateDisconnected {
				once.Do(func() { resumed <- c.Resume() })
			}
			return nil
		})
	}
	if err := c.Connect(); err != nil {
		res.connectErr = err
		return res
	}
	if cs.ViaResume {
		select {
		case err := <-resumed:
			if err != nil {
				res.connectErr = err
				return res
			}
		case <-time.After(20 * time.Second):
			res.inconclusive = "resume-in-handler-watchdog"
			return res
		}
		atomic.AddInt64(&vfC05ViaResume, 1)
	}
	want := 0
	for _, e := range cs.Elems {
		if e.Stanza {
			want++
		}
	}
	if cs.End == "sentinel" {
		want++
	}
	wantR := 0
	for _, e := range cs.Elems {
		if e.Kind == "r" {
			wantR++
		}
	}
	<-sentAll
	stanzaHandled := func() int {
		n := 0
		obs.mu.Lock()
		for _, k := range obs.kinds {
			if k == "message" || k == "presence" || k == "iq" {
				n++
			}
		}
		obs.mu.Unlock()
		return n
	}
	nAnswers := func() int { amu.Lock(); defer amu.Unlock(); return len(answers) }
	ok := vfWaitUntil(20*time.Second, func() bool {
		if cs.End == "rst" {
			// after a reset nothing more can be demanded: wait for the loss to be noticed
			return len(obs.Errors()) > 0 && vfInRoute() == 0
		}
		return stanzaHandled() >= want && (nAnswers() >= wantR || cs.End == "fin")
	})
	if !ok {
		// logical loss condition (DESIGN 3.3): nothing is in flight any more
		inRoute := vfInRoute()
		recvAlive := vfCountFrames("gosrc.io/xmpp.(*Client).recv")
		if inRoute == 0 {
			res.inconclusive = "" // decided below by the counts
		} else {
			res.inconclusive = fmt.Sprintf("watchdog: %d goroutines still in route, recv alive=%d", inRoute, recvAlive)
		}
		if atomic.LoadInt32(&gateTimedOut) != 0 {
			res.inconclusive = ""
		}
	}
	// let duplicates (if any) surface: wait until no route goroutine is left
	vfWaitUntil(5*time.Second, func() bool { return vfInRoute() == 0 })
	if atomic.LoadInt32(&gateTimedOut) != 0 {
		res.errs = append(res.errs, "GATE: handler of the first stanza never saw the second stanza start (routing is not concurrent)")
	}
	go c.Disconnect() // cleanup in the background: Close waits ConnectTimeout for the peer's stream close
	obs.mu.Lock()
	res.handled = append([]string(nil), obs.handled...)
	res.kinds = append([]string(nil), obs.kinds...)
	obs.mu.Unlock()
	res.answers = nAnswers()
	return res
}

func vfC05RunComponent(cs *vfC05Case) vfC05Result {
	var res vfC05Result
	r := rand.New(rand.NewSource(cs.Seed))
	sentAll := make(chan struct{})
	peer := vfNewPeer(func(pc *vfPeerConn) {
		if _, err := pc.Expect("stream"); err != nil {
			res.peerErr = err
			close(sentAll)
			return
		}
		pc.Send(vfStreamHeader("jabber:component:accept", "cid1", "comp.localhost"))
		if _, err := pc.Expect("handshake"); err != nil {
			res.peerErr = err
			close(sentAll)
			return
		}
		pc.Send("<handshake/>")
		rdone := make(chan struct{})
		go func() {
			defer close(rdone)
			for {
				e, err := pc.Next()
				if err != nil {
					return
				}
				if e.Kind == "close" {
					pc.Send("</stream:stream>")
				}
			}
		}()
		var sb strings.Builder
		for _, e := range cs.Elems {
			sb.WriteString(e.XML)
		}
		if cs.End == "sentinel" {
			sb.WriteString(`<message id="SENTINEL" from="peer@example.org"><body>end</body></message>`)
		}
		pc.SendSeg(sb.String(), r)
		close(sentAll)
		if cs.End == "fin" {
			if tc, ok := pc.raw.(interface{ CloseWrite() error }); ok {
				tc.CloseWrite()
			}
		}
		<-rdone
	})
	defer peer.Stop()
	router := NewRouter()
	obs := &vfObs{}
	hr := rand.New(rand.NewSource(cs.Seed + 1))
	obs.handlerDelay = func(id string) {
		if hr.Intn(5) == 0 {
			time.Sleep(time.Duration(hr.Intn(300)) * time.Microsecond)
		}
	}
	obs.catchAll(router)
	comp, _ := NewComponent(ComponentOptions{TransportConfiguration: TransportConfiguration{Address: peer.Addr(), ConnectTimeout: 1}, Domain: "comp.localhost", Secret: "s"}, router, obs.onError)
	comp.SetHandler(obs.onEvent)
	if err := comp.Connect(); err != nil {
		res.connectErr = err
		return res
	}
	want := 0
	for _, e := range cs.Elems {
		if e.Stanza {
			want++
		}
	}
	if cs.End == "sentinel" {
		want++
	}
	<-sentAll
	ok := vfWaitUntil(20*time.Second, func() bool {
		n := 0
		obs.mu.Lock()
		for _, k := range obs.kinds {
			if k == "message" || k == "presence" || k == "iq" {
				n++
			}
		}
		obs.mu.Unlock()
		return n >= want
	})
	if !ok && vfInRoute() != 0 {
		res.inconclusive = "watchdog: component still routing"
	}
	go comp.Disconnect()
	obs.mu.Lock()
	res.handled = append([]string(nil), obs.handled...)
	res.kinds = append([]string(nil), obs.kinds...)
	obs.mu.Unlock()
	return res
}

func vfC05RunClientWS(cs *vfC05Case) vfC05Result {
	var res vfC05Result
	r := rand.New(rand.NewSource(cs.Seed))
	sentAll := make(chan struct{})
	var amu sync.Mutex
	nAns := 0
	peer := vfNewWSPeer(nil, func(w *vfWSConn) {
		if err := vfWSNegotiate(w, cs.SM, true); err != nil {
			res.peerErr = err
			close(sentAll)
			return
		}
		rdone := make(chan struct{})
		go func() {
			defer close(rdone)
			for {
				m, err := w.Read()
				if err != nil {
					return
				}
				if strings.HasPrefix(m, "<a ") {
					amu.Lock()
					nAns++
					amu.Unlock()
				}
			}
		}()
		all := append([]vfInElem(nil), cs.Elems...)
		all = append(all, vfInElem{XML: `<message xmlns="jabber:client" id="SENTINEL" from="peer@example.org"><body>end</body></message>`})
		for i := 0; i < len(all); {
			switch cs.WSStyle {
			case "several":
				k := 1 + r.Intn(3)
				s := ""
				for j := 0; j < k && i < len(all); j++ {
					// the transport refuses websocket messages above its read limit (32 KiB, a documented constant of
					// the library): grouping must not manufacture one out of stanzas that are each within it
					if j > 0 && len(s)+len(all[i].XML) > 32000 {
						break
					}
					s += all[i].XML
					i++
				}
				w.Send(s)
			case "fragmented":
				x := all[i].XML
				i++
				if len(x) > 4 && r.Intn(2) == 0 {
					p := 1 + r.Intn(len(x)-2)
					w.SendFragmented(x[:p], x[p:])
				} else {
					w.Send(x)
				}
			default:
				w.Send(all[i].XML)
				i++
			}
		}
		close(sentAll)
		if cs.End == "fin" {
			w.Close() // the connection is lost right after the burst: what was completely received must still be routed
			return
		}
		nReq := 0
		for _, e := range cs.Elems {
			if e.Kind == "r" {
				nReq++
			}
		}
		answered := func() bool {
			amu.Lock()
			defer amu.Unlock()
			return nAns >= nReq
		}
		if cs.Seed%3 == 0 && vfWaitUntil(5*time.Second, answered) {
			// behind everything that is judged (the answers to all acknowledgement requests are in): one message larger
			// than the transport's per-message limit. The client may refuse it (and with it the connection) - what it
			// must not do is crash.
			w.Send(`<message xmlns="jabber:client" id="OVERSIZE" from="peer@example.org"><body>` + strings.Repeat("0123456789abcdef", []int{2100, 2600, 6500}[int(cs.Seed/3)%3]) + `</body></message>`)
			atomic.AddInt64(&vfC05Oversize, 1)
		}
		<-rdone
	})
	defer peer.Stop()
	router := NewRouter()
	c, obs, err := vfNewClient(vfClientOpt{Addr: strings.Replace(peer.URL(), "ws://", "ws://", 1), Insecure: true, SM: cs.SM, SMResume: true}, router)
	if err != nil {
		res.connectErr = err
		return res
	}
	if cs.End == "fin" {
		// slow handlers: messages pile up in the transport's queue while the connection goes away
		obs.handlerDelay = func(id string) { time.Sleep(300 * time.Microsecond) }
	}
	obs.catchAll(router)
	if err := c.Connect(); err != nil {
		res.connectErr = err
		return res
	}
	want := 1
	for _, e := range cs.Elems {
		if e.Stanza {
			want++
		}
	}
	<-sentAll
	stanzaHandled := func() int {
		n := 0
		obs.mu.Lock()
		for _, k := range obs.kinds {
			if k == "message" || k == "presence" || k == "iq" {
				n++
			}
		}
		obs.mu.Unlock()
		return n
	}
	ok := vfWaitUntil(10*time.Second, func() bool { return stanzaHandled() >= want })
	if !ok {
		// loss is decided logically: the websocket reader goroutine is gone or idle and nothing is being routed
		if vfInRoute() != 0 {
			res.inconclusive = "watchdog: still routing"
		}
	}
	vfWaitUntil(3*time.Second, func() bool { return vfInRoute() == 0 })
	if cs.End != "fin" {
		// the client has written its last <a/> before it routed the sentinel, but the peer's reader may not have
		// counted it yet: give the answers a bounded time to arrive before they are compared with the requests
		wantR := 0
		for _, e := range cs.Elems {
			if e.Kind == "r" {
				wantR++
			}
		}
		vfWaitUntil(10*time.Second, func() bool { amu.Lock(); defer amu.Unlock(); return nAns >= wantR })
	}
	go c.Disconnect() // cleanup in the background: Close waits ConnectTimeout for the peer's stream close
	obs.mu.Lock()
	res.handled = append([]string(nil), obs.handled...)
	res.kinds = append([]string(nil), obs.kinds...)
	obs.mu.Unlock()
	amu.Lock()
	res.answers = nAns
	amu.Unlock()
	return res
}

func vfC05Judge(run *vfkit.Run, cs *vfC05Case, res vfC05Result) {
	tag := cs.Mode + ":" + cs.End
	if cs.Mode == "client-ws" {
		tag = cs.Mode + ":" + cs.WSStyle
	}
	if res.connectErr != nil || res.peerErr != nil {
		run.Inconclusive(fmt.Sprintf("negotiation-failed:%s", cs.Mode))
		run.Note(map[string]interface{}{"connectErr": fmt.Sprint(res.connectErr), "peerErr": fmt.Sprint(res.peerErr)})
		return
	}
	if res.inconclusive != "" {
		run.Inconclusive("watchdog")
		return
	}
	for _, e := range res.errs {
		if strings.HasPrefix(e, "GATE") {
			k := "C05/client-routing-not-concurrent"
			if cs.GateK > 2 {
				k = "C05/client-routing-concurrency-bounded"
			}
			run.Violation(k, fmt.Sprintf("%s (%d handlers were waiting for the next stanza to be dispatched)", e, cs.GateK), cs)
		}
	}
	if cs.Gate && cs.GateK > 2 && len(res.errs) == 0 {
		run.Count("gate_cases_many_waiting_handlers", 1)
	}
	var sent []string
	for _, e := range cs.Elems {
		if e.Stanza {
			sent = append(sent, e.Id)
		}
	}
	if cs.End == "sentinel" || cs.Mode == "client-ws" {
		sent = append(sent, "SENTINEL")
	}
	var got []string
	for i, k := range res.kinds {
		if k == "message" || k == "presence" || k == "iq" {
			got = append(got, res.handled[i])
		}
	}
	cnt := map[string]int{}
	for _, id := range got {
		cnt[id]++
	}
	sentSet := map[string]bool{}
	for _, id := range sent {
		sentSet[id] = true
	}
	for id, n := range cnt {
		if n > 1 {
			run.Violation("C05/duplicate-delivery:"+tag, fmt.Sprintf("stanza %s routed %d times", id, n), cs)
			return
		}
		if !sentSet[id] {
			k := "C05/phantom-stanza:" + tag
			if id == "nested" {
				k = "C05/nested-element-routed-as-stanza:" + tag
			}
			run.Violation(k, fmt.Sprintf("router received stanza id %q which the peer never sent at top level", id), cs)
			return
		}
	}
	if cs.End != "rst" {
		var missing []string
		for _, id := range sent {
			if cnt[id] == 0 {
				missing = append(missing, id)
			}
		}
		if len(missing) > 0 {
			// what preceded the first lost stanza is the signature
			prev := "start"
			for i, e := range cs.Elems {
				if e.Id == missing[0] && i > 0 {
					prev = cs.Elems[i-1].Kind
				}
			}
			run.Violation("C05/lost-stanza:"+tag+":after-"+prev, fmt.Sprintf("%d of %d stanzas never reached the router (first missing %s, preceded by <%s>); nothing was in flight any more", len(missing), len(sent), missing[0], prev), cs)
			return
		}
	}
	if cs.Mode == "component-tcp" {
		// arrival order
		j := 0
		for _, id := range got {
			for j < len(sent) && sent[j] != id {
				j++
			}
			if j == len(sent) {
				run.Violation("C05/component-out-of-order", fmt.Sprintf("component handled %v, arrival order %v", got, sent), cs)
				return
			}
		}
	}
	if cs.Mode != "component-tcp" && cs.End != "rst" && cs.End != "fin" {
		wantR := 0
		for _, e := range cs.Elems {
			if e.Kind == "r" {
				wantR++
			}
		}
		if res.answers < wantR {
			run.Violation("C05/ack-request-not-answered:"+tag, fmt.Sprintf("peer sent %d <r/>, client answered %d <a/>", wantR, res.answers), cs)
			return
		}
		if res.answers > wantR {
			run.Count("surplus_answers_seen", int64(res.answers-wantR)) // retransmitted answers: a C10 matter, not asserted here
		}
		run.Count("ack_requests_answered", int64(wantR))
	}
	run.Count("stanzas_routed_once", int64(len(got)))
	// interleaving signature: order of handler entry relative to send order
	if !sort.StringsAreSorted(got) {
		run.Count("cases_with_reordered_handler_entry", 1)
	}
	run.Nontrivial(fmt.Sprintf("%s|%v|%v", tag, cs.Seed, got))
}

func TestVf_C05(t *testing.T) {
	run := vfkit.Open("C05", "random inbound sequences over {message (incl. 30 KiB bodies and unknown extensions wrapping nested stanzas), presence, iq of every type, <r/>, <a h/> (also without stream management)}, "+
		"randomly segmented, for Client over TCP (ending with sentinel / FIN / RST; gate cases prove concurrent routing), Component over TCP (order asserted) and Client over WebSocket (one stanza per message, several per message, fragmented frames); "+
		"oracle: multiset of routed ids == sent, <a/> count == <r/> count; non-trivial = case with >=1 stanza fully accounted for, distinct by (mode, seed, handler-entry order)")
	defer run.Close()
	defer func() {
		run.Count("reads_returning_data_together_with_the_end", atomic.LoadInt64(&vfC05DataWithEOF))
		run.Count("oversized_websocket_messages_survived", atomic.LoadInt64(&vfC05Oversize))
		run.Count("second_sessions_obtained_inside_the_handler", atomic.LoadInt64(&vfC05ViaResume))
	}()
	var rc vfC05Case
	if run.ReplayCase(&rc) {
		for i := 0; i < 5; i++ {
			run.Case(rc)
			vfC05Judge(run, &rc, vfC05Exec(&rc))
		}
		return
	}
	ncases := vfkit.Pick(160, 1200)
	nelem := vfkit.Pick(60, 300)
	r := vfkit.Rand(5)
	for c := 0; c < ncases && !run.Enough(); c++ {
		cs := &vfC05Case{Seed: vfkit.Seed()*1000 + int64(c)}
		switch c % 8 {
		case 0, 1, 2, 3:
			cs.Mode = "client-tcp"
			cs.SM = r.Intn(2) == 0
			cs.End = []string{"sentinel", "sentinel", "fin", "rst"}[r.Intn(4)]
			cs.Logged = []string{"", "logged", "logged+data-with-eof"}[r.Intn(3)]
			cs.ViaResume = !cs.SM && cs.Logged == "" && r.Intn(2) == 0
			cs.Gate = r.Intn(3) == 0 && cs.End != "rst" // after a reset the second stanza may never arrive
			if cs.Gate {
				cs.GateK = []int{1, 2, 8, 33, 40, 100}[r.Intn(6)]
			}
			cs.Elems = vfGenInbound(r, 1+r.Intn(nelem), "", true, fmt.Sprintf("c%d", c))
			if cs.Gate && cs.GateK >= 8 {
				cs.Elems = vfGenInbound(r, 2*cs.GateK+10+r.Intn(20), "", true, fmt.Sprintf("c%d", c))
			}
		case 4, 5:
			cs.Mode = "component-tcp"
			cs.End = []string{"sentinel", "fin"}[r.Intn(2)]
			cs.Elems = vfGenInbound(r, 1+r.Intn(nelem), "", false, fmt.Sprintf("c%d", c))
			// a component peer sends stanzas only
			var st []vfInElem
			for _, e := range cs.Elems {
				if e.Stanza {
					st = append(st, e)
				}
			}
			cs.Elems = st
		default:
			cs.Mode = "client-ws"
			cs.SM = r.Intn(2) == 0
			cs.End = []string{"sentinel", "sentinel", "fin"}[r.Intn(3)]
			cs.WSStyle = []string{"one", "several", "fragmented"}[r.Intn(3)]
			cs.Elems = vfGenInbound(r, 1+r.Intn(nelem/2), "jabber:client", true, fmt.Sprintf("c%d", c))
			if cs.End == "fin" {
				// the websocket library closes the whole connection as soon as one of the client's own writes fails, and
				// with it whatever the kernel had received but the reader had not yet taken: that is below go-xmpp.
				// So the loss-after-burst case carries stanzas only (nothing makes the client write).
				cs.SM = false
				var st []vfInElem
				for _, e := range cs.Elems {
					if e.Stanza {
						st = append(st, e)
					}
				}
				for len(st) < 24 {
					st = append(st, vfGenInbound(r, 30, "jabber:client", false, fmt.Sprintf("c%dx%d", c, len(st)))...)
					var only []vfInElem
					for _, e := range st {
						if e.Stanza {
							only = append(only, e)
						}
					}
					st = only
				}
				cs.Elems = st
			}
		}
		run.Case(cs)
		if c < 2 {
			run.Sample(map[string]interface{}{"mode": cs.Mode, "sm": cs.SM, "end": cs.End, "first_elements": cs.Elems[:vfMin(4, len(cs.Elems))], "n": len(cs.Elems)})
		}
		run.Count("cases_"+cs.Mode, 1)
		run.Count("elements_sent", int64(len(cs.Elems)))
		vfC05Judge(run, cs, vfC05Exec(cs))
	}
	if run.NViolations() > 0 {
		t.Fail()
	}
}

func vfMin(a, b int) int {
	if a < b {
		return a
	}
	return b
}

func vfC05Exec(cs *vfC05Case) vfC05Result {
	switch cs.Mode {
	case "component-tcp":
		return vfC05RunComponent(cs)
	case "client-ws":
		return vfC05RunClientWS(cs)
	}
	return vfC05RunClientTCP(cs)
}
